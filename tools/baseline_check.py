#!/venv/bin/python
"""Run the pinned suite (guard off) and compare with BASELINE.json's stable_pass list."""
import json, os, subprocess, sys, tempfile, xml.etree.ElementTree as ET
repo = sys.argv[1] if len(sys.argv) > 1 else '/repo'
b = json.load(open('/root/.vp/BASELINE.json'))
out = tempfile.mktemp(suffix='.xml')
env = dict(os.environ); env.pop('PEDAL_EDU_PEDAL_VERIF', None); env['PYTHONPATH'] = repo
subprocess.run(['/venv/bin/python', '-m', 'pytest', '-ra', '-q', '-p', 'no:cacheprovider', '--timeout=900',
                '--continue-on-collection-errors', '--junitxml=' + out], cwd=repo, env=env,
               stdout=subprocess.DEVNULL, stderr=subprocess.DEVNULL)
passed = set()
for tc in ET.parse(out).getroot().iter('testcase'):
    if not any(ch.tag in ('failure', 'error', 'skipped') for ch in tc):
        passed.add('%s::%s' % (tc.get('classname'), tc.get('name')))
os.unlink(out)
missing = sorted(set(b['stable_pass']) - passed)
print('stable_pass: %d, passing now: %d, missing: %d' % (len(b['stable_pass']), len(passed & set(b['stable_pass'])), len(missing)))
for m in missing[:20]:
    print('  MISSING', m)
sys.exit(1 if missing else 0)
