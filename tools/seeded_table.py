#!/venv/bin/python
"""Regenerate the table of DESIGN.md section 7.1 from /verif/seeded/*/meta.json and /verif/seeded/notes.json
(notes.json: what had to be strengthened before a change was caught).  Prints the table; with --write it
replaces the table inside DESIGN.md."""
import glob, json, os, re, sys

V = '/verif'
notes = json.load(open(os.path.join(V, 'seeded', 'notes.json')))
rows = []
caught = missed = 0
for d in sorted(glob.glob(os.path.join(V, 'seeded', 'C*-*'))):
    name = os.path.basename(d)
    m = json.load(open(os.path.join(d, 'meta.json')))
    cr = m.get('check_results', {})
    by = [c for c, r in cr.items() if r.get('exit') == 1 and r.get('signatures')]
    sig = next((r['signatures'][0] for c, r in cr.items() if r.get('signatures')), None)
    if by:
        caught += 1
    else:
        missed += 1

    def cell(t, n):
        return re.sub(r'\s+', ' ', str(t or '')).replace('|', '/')[:n]
    last = ('`%s`' % sig) if sig else '— NOT caught'
    if name in notes:
        last += ' — ' + notes[name].replace('|', '/')
    rows.append('| %s | %s | %s | %s | %s |' % (name, cell(m.get('summary'), 150), cell(m.get('needs_to_manifest'), 100),
                                                ', '.join(by) or 'NONE', last))
head = ['| seeded change | what it changes | what it needs to manifest | caught by (quick tier, VERIF_SEED=1) | first signature / note |',
        '|---|---|---|---|---|']
table = '\n'.join(head + rows)
print('%d seeded changes, %d caught, %d not' % (len(rows), caught, missed), file=sys.stderr)
if '--write' in sys.argv:
    p = os.path.join(V, 'DESIGN.md')
    s = open(p).read()
    pat = re.compile(r'\| seeded change \|.*?\n(?=\n)', re.S)
    assert len(pat.findall(s)) == 1
    s = pat.sub(lambda _: table + '\n', s)
    open(p, 'w').write(s)
else:
    print(table)
