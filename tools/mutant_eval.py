#!/venv/bin/python
"""Confirm a seeded change (demo passes clean / fails patched, suite still green) in its scratch worktree, then run
the checks against it in /repo (apply, run, revert) and file it under /verif/seeded/<name>/.

usage: mutant_eval.py <PROP> <worktree> <mutant_dir> <name> [extra check ids...]
"""
import json, os, shutil, subprocess, sys, time

prop, wt, mdir, name = sys.argv[1:5]
extra = sys.argv[5:]
PY = '/venv/bin/python'


def sh(cmd, cwd=None, env=None, timeout=1200):
    e = dict(os.environ)
    if env:
        e.update(env)
    p = subprocess.run(cmd, cwd=cwd, env=e, capture_output=True, text=True, timeout=timeout, shell=isinstance(cmd, str))
    return p.returncode, p.stdout + p.stderr


patch = os.path.join(mdir, 'patch.diff')
demo = os.path.join(mdir, 'demo.py')
out = {'property': prop, 'name': name}
sh(['git', '-C', wt, 'checkout', '--', 'pedal'])
rc, o = sh([PY, demo], cwd=wt, env={'PYTHONPATH': wt})
out['demo_clean'] = rc
rc, o = sh(['git', '-C', wt, 'apply', patch])
assert rc == 0, o
rc, o = sh([PY, demo], cwd=wt, env={'PYTHONPATH': wt})
out['demo_patched'] = rc
out['demo_patched_tail'] = o[-400:]
rc, o = sh([PY, '/verif/tools/baseline_check.py', wt])
out['suite_patched'] = o.strip().splitlines()[0] if o.strip() else ''
out['suite_ok'] = rc == 0
sh(['git', '-C', wt, 'checkout', '--', 'pedal'])
# ---- the checks, against /repo itself
rc, o = sh(['git', '-C', '/repo', 'status', '--short'])
assert not [l for l in o.splitlines() if not l.startswith('??')], 'repo not clean: ' + o
rc, o = sh(['git', '-C', '/repo', 'apply', patch])
assert rc == 0, o
out['checks'] = {}
# the evidence files describe the unchanged tree: keep them across the run against the changed one
saved_evidence = {}
for cid in [prop] + extra:
    ep = '/verif/evidence/%s.json' % cid
    if os.path.exists(ep):
        saved_evidence[ep] = open(ep).read()
try:
    for cid in [prop] + extra:
        t0 = time.time()
        rc, o = sh([PY, '/verif/checks/run.py', cid, '--tier', 'quick'], cwd='/verif', env={'VERIF_SEED': os.environ.get('MUT_SEED', '1')})
        sigs = sorted({l.split(' -- ')[0].replace('violation: ', '') for l in o.splitlines() if l.startswith('violation: ')})
        out['checks'][cid] = {'exit': rc, 'wall_s': round(time.time() - t0, 1), 'signatures': sigs[:12],
                              'harness': [l for l in o.splitlines() if l.startswith('HARNESS')][:3],
                              'first_detail': next((l[:400] for l in o.splitlines() if l.startswith('violation: ')), None)}
finally:
    sh(['git', '-C', '/repo', 'checkout', '--', '.'])
    for ep, text in saved_evidence.items():
        open(ep, 'w').write(text)
rc, o = sh(['git', '-C', '/repo', 'status', '--short'])
out['repo_clean_after'] = not [l for l in o.splitlines() if not l.startswith('??')]
dst = os.path.join('/verif/seeded', name)
os.makedirs(dst, exist_ok=True)
shutil.copy(patch, os.path.join(dst, 'patch.diff'))
shutil.copy(demo, os.path.join(dst, 'demo.py'))
meta = {}
try:
    meta = json.load(open(os.path.join(mdir, 'meta.json')))
except Exception:
    pass
meta.update({'property': prop, 'confirmed': {'demo_exit_clean_tree': out['demo_clean'], 'demo_exit_patched_tree': out['demo_patched'],
                                            'pinned_suite_with_patch': out['suite_patched']},
             'what_was_run': ['cd <worktree> && PYTHONPATH=<worktree> /venv/bin/python demo.py  (clean, then with patch.diff applied)',
                              '/venv/bin/python /verif/tools/baseline_check.py <worktree>  (patched)',
                              'git -C /repo apply patch.diff; VERIF_SEED=%s /venv/bin/python /verif/checks/run.py <ID> --tier quick; git -C /repo checkout -- .' % os.environ.get('MUT_SEED', '1')],
             'check_results': out['checks']})
json.dump(meta, open(os.path.join(dst, 'meta.json'), 'w'), indent=1)
print(json.dumps(out, indent=1))
