#!/venv/bin/python
"""CLI of the verification machinery.

    run.py <ID> --tier quick|thorough      decide one property on /repo's working tree
    run.py --replay <file>                 replay a recorded violation in a fresh process
    run.py --selftest                      setup check: seams present, determinism, schemas

exit 0  property held on everything explored (KNOWN-FINDING lines allowed)
exit 1  + "VIOLATION property=<id> replay=<path>"
exit 2  "HARNESS: ..." (the machinery itself is broken: never a pass, never a violation)
"""
import argparse
import os
import sys

HERE = os.path.dirname(os.path.abspath(__file__))
VERIF = os.path.dirname(HERE)
sys.path.insert(0, VERIF)
sys.path.insert(0, HERE)

CHECKS = {'C04': 'c04', 'C05': 'c05', 'C06': 'c06', 'C13': 'c13', 'C14': 'c14', 'C15': 'c15', 'C17': 'c17', 'C20': 'c20'}


def reexec_controlled():
    """One controlled interpreter: fixed string-hash seed and no address-space randomisation,
    so that set iteration order (of strings and of id-hashed objects) is reproducible."""
    if os.environ.get('VERIF_REEXEC') == '1':
        return
    env = dict(os.environ)
    env['VERIF_REEXEC'] = '1'
    env.setdefault('PYTHONHASHSEED', '0')
    env['PYTHONDONTWRITEBYTECODE'] = '1'
    argv = [sys.executable] + sys.argv
    setarch = '/usr/bin/setarch'
    sys.stdout.flush()
    if os.path.exists(setarch) and os.environ.get('VERIF_NO_SETARCH') != '1':
        try:
            import subprocess
            if subprocess.run([setarch, '-R', '/bin/true'], capture_output=True).returncode == 0:
                env['VERIF_ASLR'] = 'off'
                os.execve(setarch, [setarch, '-R'] + argv, env)
        except Exception:
            pass
    env['VERIF_ASLR'] = 'on'
    os.execve(sys.executable, argv, env)


def main():
    ap = argparse.ArgumentParser()
    ap.add_argument('check', nargs='?')
    ap.add_argument('--tier', default=os.environ.get('VERIF_TIER', 'quick'), choices=['quick', 'thorough'])
    ap.add_argument('--replay')
    ap.add_argument('--selftest', action='store_true')
    ap.add_argument('--fingerprint', action='store_true')
    ap.add_argument('--workers', type=int, default=None)
    ap.add_argument('--budget', type=float, default=None)
    args = ap.parse_args()
    reexec_controlled()
    seed = int(os.environ.get('VERIF_SEED', '20261003'))
    from sim import harness, world
    try:
        if args.replay:
            return harness.replay(args.replay)
        if args.selftest:
            import selftest
            return selftest.main()
        if args.fingerprint:
            import selftest
            return selftest.print_fingerprints()
        if args.check not in CHECKS:
            print('unknown check %r; known: %s' % (args.check, ', '.join(sorted(CHECKS))))
            return 2
        check = __import__(CHECKS[args.check])
        return harness.drive(check, args.tier, seed, workers=args.workers, budget_s=args.budget)
    except world.HarnessError as e:
        print('HARNESS: %s' % (e,))
        return 2


if __name__ == '__main__':
    sys.exit(main())
