"""C17 -- sections split a submission losslessly and report whole-file line numbers.

Engine ``sbx`` (source-tool histories).  Files are BUILT from known chunks and marker
lines (0-6 markers; none, adjacent, on the first/last line; default and custom patterns),
so the expected split is known by construction and the oracle needs no regular
expression.  A seeded history of separate_into_sections / next_section (incl. past the
end) / verify / tifa_analysis / run / stop_sections / resolve / script-crash-then-resolve
is checked op by op.  Line numbers are provoked in the active section by
  * an exception injected at EVERY line event of the section's code (simulation),
  * one corrupted character at a seeded line (syntax error)   } planted defects: input
  * a read of an undefined name at a seeded line (TIFA)        } generation, same harness
and every reported line must be the line of the ORIGINAL file.
"""
import os
import re
import sys

sys.path.insert(0, os.path.dirname(os.path.dirname(os.path.abspath(__file__))))

from sim import faults, seeds, world  # noqa: E402
from sim.monitor import MONITOR  # noqa: E402
from sim.refexec import safe_str  # noqa: E402

ID = 'C17'
LEVEL = 'exploration'
BUDGET = {'quick': 75, 'thorough': 780}
RULE = ('files built from known chunks and 0-6 marker lines (placements: none, adjacent, first line, last line; default and two custom '
        'patterns), independent or cumulative mode; seeded histories of next_section / verify / tifa_analysis / run / stop_sections / '
        'resolve / crash-then-resolve; an exception injected at every LINE event of the active section (fault enumeration inside each '
        'run op) plus planted syntax / undefined-name defects; distinct_nontrivial = distinct (file digest, mode, op history digest) '
        'with at least one marker and one diagnostic')
ASSUMPTIONS = [
    'the expected split is known by construction (chunks never contain a line matching the pattern)',
    'whole-file line of local line L of chunk k = number of newline characters before chunk k + L',
    'runtime crash points are LINE events of the section code; syntax and TIFA line numbers come from planted defects (input generation)',
    'only feedback created while a section is active (or, for the after-stop clause, after stop_sections) is judged',
]
COMPONENTS = {'real': ['pedal.source (sections, source, feedbacks, substitutions)', 'pedal.core.submission', 'pedal.sandbox',
                       'pedal.tifa', 'pedal.resolvers.simple', 'pedal.utilities.exceptions'],
              'stub': ['time.* (virtual clock)', 'console streams', 'synthetic sectioned files']}

PATTERNS = {
    'default': (None, '##### Part %d'),
    'dashes': (r'^(# --- .+ ---)$', '# --- section %d ---'),
    'percent': (r'^(#% .*)$', '#%% cell %d'),
    'cellnl': (r'^(#@ .*\n)', '#@ cell %d'),        # the separator's group includes its own newline
    # patterns as an instructor writes them without thinking of re.split: the group is only a part of the marker
    # (the form set_source's documentation shows), there is no group, there are two
    'inner': (r'^##### Part (\d+)$', '##### Part %d'),
    'nogroup': (r'^#@ cell \d+$', '#@ cell %d'),
    'twogroups': (r'^(#) --- (section \d+) ---$', '# --- section %d ---'),
}
STATEMENTS = ['a%d = %d', 'print(%d + %d)', 'b%d = [%d]', "s%d = 'v%d'", 'c%d = a0 if False else %d', 'print("row", %d, %d)',
              'd%d = {"k": %d}', 'e%d = %d * 2', "t%d = 'a\x0bb%d'", "u%d = %d  # note\u2028still the same line"]
FORM_FEED_LINE = '\x0c'       # a page-break line: blank for Python, a line break for str.splitlines()


def tasks(base_seed, tier):
    n = 12000 if tier == 'quick' else 300000
    chunk = 20
    return [{'id': 'file:%d' % i, 'tier': tier,
             'seeds': [seeds.run_seed(base_seed ^ 0xC17, j) for j in range(i, min(n, i + chunk))]}
            for i in range(0, n, chunk)]


def determinism_sample(tasks_):
    return tasks_[:3]


def gen_chunk(r, idx, n_lines):
    """-> (lines, name of a function defined in this chunk or None)"""
    lines = []
    fn = None
    for j in range(n_lines):
        c = r.random()
        if c < 0.06:
            lines.append(FORM_FEED_LINE)
        elif c < 0.22 and fn is None:
            fn = 'g%d' % idx
            lines += ['def %s(x):' % fn, '    y = x + %d' % r.randint(1, 5), '    z = y * 2', '    return z']
        else:
            t = r.choice(STATEMENTS)
            lines.append(t % (idx * 10 + j, r.randint(0, 9)))
    return lines, fn


def build(seed, tier):
    st = seeds.streams(seed)
    r, ro, rf = st[seeds.PROGRAM], st[seeds.OPS], st[seeds.FAULTS]
    pname = r.choice(['default', 'default', 'dashes', 'percent', 'cellnl', 'default', 'dashes', 'inner', 'nogroup', 'twogroups'])
    nl_in_marker = pname == 'cellnl'
    funcs = {}
    pattern, marker_t = PATTERNS[pname]
    m = r.choice([0, 1, 2, 2, 3, 3, 4, 6])
    independent = r.random() < 0.6
    # pieces: [chunk0, marker1, chunk1, ...] as exact strings whose concatenation is the file
    pieces = []
    shape = r.random()
    for k in range(m + 1):
        n_lines = r.randint(0, 4)
        if k == 0 and shape < 0.2:
            n_lines = 0                      # marker on the very first line
        if 0 < k < m and r.random() < 0.15:
            n_lines = 0                      # adjacent markers
        lines, fn = gen_chunk(r, k, n_lines)
        if fn:
            funcs[str(k)] = fn
        if k == 0:
            text = ''.join(ln + '\n' for ln in lines)
        elif nl_in_marker:
            text = ''.join(ln + '\n' for ln in lines)
        else:
            text = '\n' + ''.join(ln + '\n' for ln in lines)
            if k == m and r.random() < 0.25 and (not lines or not lines[-1].startswith(' ')):
                text = text.rstrip('\n') if lines else ''      # file ends without a newline / marker is the last line
        pieces.append(text)
        if k < m:
            pieces.append(marker_t % (k + 1) + ('\n' if nl_in_marker else ''))
    ops = []
    k = 0
    crashed = False
    n_ops = ro.randint(2, 10 if tier == 'quick' else 16)
    for i in range(n_ops):
        c = ro.random()
        if c < 0.32:
            ops.append({'op': 'next_section'})
            k += 1
        elif c < 0.47:
            ops.append({'op': 'verify', 'plant': ro.random() < 0.5, 'at': ro.randint(0, 5)})
        elif c < 0.62:
            ops.append({'op': 'tifa', 'plant': ro.random() < 0.6, 'at': ro.randint(0, 5), 'flavour': ro.randint(0, 2)})
        elif c < 0.645:
            ops.append({'op': 'check_exists', 'n': ro.randint(0, 8)})
        elif c < 0.65:
            # the script separates again (e.g. two graders' snippets glued together): sections start over -
            # either by the plain call, or by handing the same text to set_source(..., sections=...) once more
            # (set_source(..., sections=...) while sections are active is NOT generated: it pushes a backup of its own
            # between the two sectionings and which text is then "the file" is not defined by the property - DESIGN 8)
            ops.append({'op': 'separate_again'})
            k = 0
        elif c < 0.665:
            # run() of the active code with a syntax error in it, without a verify() before (the compiler reports it);
            # or the active code imports a second student file that has one
            ops.append({'op': 'run_syntax', 'at': ro.randint(0, 5), 'imported': ro.random() < 0.35})
        elif c < 0.82:
            ops.append({'op': 'run', 'enumerate': True, 'exc': rf.choice(faults.ORDINARY + ['SystemExit'])})
        elif c < 0.92:
            # run the active section, then call a function it defines, crashing inside the function
            ops.append({'op': 'call', 'exc': rf.choice(faults.ORDINARY)})
        else:
            ops.append({'op': 'crash', 'exc': rf.choice(['ValueError', 'KeyError'])})
            crashed = True
            break          # the script died: resolve() ran, nothing section-related follows
    end = ro.random()
    if crashed:
        if end < 0.5:
            ops.append({'op': 'run', 'enumerate': True, 'exc': rf.choice(faults.ORDINARY), 'after_stop': True})
    elif end < 0.45:
        ops.append({'op': 'stop_sections'})
        ops.append({'op': 'run', 'enumerate': True, 'exc': rf.choice(faults.ORDINARY), 'after_stop': True})
    elif end < 0.85:
        ops.append({'op': 'resolve'})
    knobs = {}
    kn = ro.random()
    if kn < 0.1:
        knobs['full_traceback'] = True
    elif kn < 0.25:
        knobs['tracer'] = ro.choice(['native', 'calls'])
    if ro.random() < 0.25:
        knobs['entry'] = 'set_source'      # set_source(code, sections=<pattern or True>, independent=...) instead of the two calls
    return {'pieces': pieces, 'pattern': pattern, 'pname': pname, 'independent': independent, 'ops': ops, 'funcs': funcs,
            'knobs': knobs,
            'main_file': r.choice(['answer.py', 'answer.py', 'student_code.py', 'main.py']),
            'meta': {'seed': seed, 'markers': m, 'mode': 'independent' if independent else 'cumulative'}}


# --------------------------------------------------------------------------- execution

MAIN_NAMES = ('answer.py', 'student_code.py', 'main.py')
HELPER_BAD = 'fine = 1\nalso_fine = 2\nbroken = = 3\n'      # a second student file with a syntax error on its line 3
HELPER_BAD_LINE = 3
LINE_RE = re.compile(r'Line (\d+) of file (?:answer|student_code|main)\.py')
QUOTE_RE = re.compile(r'Line (\d+) of file (?:answer|student_code|main)\.py[^\n]*\n([^\n]*)')


def fb_rec(f):
    fields = getattr(f, 'fields', None) or {}
    loc = getattr(f, 'location', None)
    msg = getattr(f, 'message', None)
    msg = msg if isinstance(msg, str) else ''
    stack = fields.get('traceback_stack') or []
    return {'label': getattr(f, 'label', None), 'category': getattr(f, 'category', None),
            'line': getattr(loc, 'line', None) if loc is not None else None,
            'lineno_field': fields.get('lineno') if isinstance(fields.get('lineno'), int) else None,
            'tb_text_lines': [int(x) for x in LINE_RE.findall(msg)],
            'tb_text_quotes': [(int(n), q) for n, q in QUOTE_RE.findall(msg)],
            'tb_stack_lines': [getattr(fr, 'lineno', None) for fr in stack if fr is not None and getattr(fr, 'filename', None) in MAIN_NAMES],
            'exception_name': fields.get('exception_name') if isinstance(fields.get('exception_name'), str) else None,
            'name_field': fields.get('name') if isinstance(fields.get('name'), str) else None,
            'message_head': msg[:80]}


def execute(spec):
    world.install_console()
    world.install_virtual_time()
    from pedal.core.report import MAIN_REPORT
    from pedal.core.submission import Submission
    from pedal.source import separate_into_sections, next_section, verify
    from pedal.source.sections import stop_sections
    from pedal.source.constants import TOOL_NAME
    from pedal.tifa import tifa_analysis
    from pedal.sandbox.commands import run, get_sandbox
    from pedal.resolvers.simple import resolve
    original = ''.join(spec['pieces'])
    main_file = spec.get('main_file', 'answer.py')
    MONITOR.configure(student_files=[main_file], instructor_files=['instructor.py'])
    MONITOR.begin(digest=True)
    MAIN_REPORT.clear()
    world.install_seeded_sets(MAIN_REPORT, 3)
    knobs = spec.get('knobs') or {}
    via_set_source = knobs.get('entry') == 'set_source'
    if not via_set_source:
        MAIN_REPORT.contextualize(Submission(files={main_file: original, 'helper_bad.py': HELPER_BAD}, main_file=main_file,
                                             instructor_file='instructor.py'))
    sub = MAIN_REPORT.submission
    if knobs.get('full_traceback'):
        get_sandbox().full_traceback = True
    if knobs.get('tracer'):
        get_sandbox().tracer_style = knobs['tracer']
    obs = []
    out = {'original': original}

    def snap(o):
        o['main_code'] = sub.main_code
        src = MAIN_REPORT[TOOL_NAME] if TOOL_NAME in MAIN_REPORT else None
        o['substitutions'] = len(src['substitutions']) if src else None
        return o

    def guarded(o, thunk):
        n = len(MAIN_REPORT.feedback)
        try:
            thunk()
            o['raised'] = None
        except BaseException as e:  # noqa
            import traceback as tbm
            tb = tbm.extract_tb(e.__traceback__)
            o['raised'] = {'cls': type(e).__name__, 'str': safe_str(e)[:100],
                           'where': ['%s:%s:%d' % (fr.filename.rsplit('/', 1)[-1], fr.name, fr.lineno) for fr in tb[-2:]]}
        o['new_feedback'] = [fb_rec(f) for f in MAIN_REPORT.feedback[n:]]
        return snap(o)

    try:
        o = {'op': 'separate'}
        kw = {'independent': spec['independent']}
        if spec['pattern'] is not None:
            kw['pattern'] = spec['pattern']
        if via_set_source:
            from pedal.source import set_source

            def enter():
                nonlocal sub
                set_source(original, filename=main_file, sections=spec['pattern'] if spec['pattern'] is not None else True,
                           independent=spec['independent'])
                sub = MAIN_REPORT.submission
            try:
                enter()
                o['raised'] = None
            except BaseException as e:  # noqa
                o['raised'] = {'cls': type(e).__name__, 'str': safe_str(e)[:100], 'where': []}
            o['new_feedback'] = []
            sub = MAIN_REPORT.submission
            snap(o)
        else:
            guarded(o, lambda: separate_into_sections(**kw))
        src = MAIN_REPORT[TOOL_NAME]
        o['sections'] = list(src['sections']) if src.get('sections') is not None else None
        obs.append(o)
        for op in spec['ops']:
            kind = op['op']
            o = {'op': kind}
            if kind == 'next_section':
                guarded(o, next_section)
            elif kind == 'separate_again':
                if op.get('via_set_source'):
                    from pedal.source import set_source as _set_source
                    guarded(o, lambda: _set_source(original, filename=main_file,
                                                   sections=spec['pattern'] if spec['pattern'] is not None else True,
                                                   independent=spec['independent']))
                    o['extra_substitutions'] = 1          # set_source keeps its own backup until the end
                else:
                    guarded(o, lambda: separate_into_sections(**kw))
            elif kind in ('verify', 'tifa'):
                code = sub.main_code
                lines = code.split('\n')
                planted = None
                if op.get('plant'):
                    real = [i for i, ln in enumerate(lines) if ln.strip() and not ln.startswith('#')]
                    if real:
                        at = real[op['at'] % len(real)]
                        if kind == 'verify':
                            lines[at] = lines[at] + ' = = 1'
                        elif op.get('flavour', 0) % 3 == 1:
                            lines[at] = 'for it%d in %d: pass' % (at, 7)          # iterating over a non-list
                        elif op.get('flavour', 0) % 3 == 2:
                            lines[at] = 'unused_name_%d = %d' % (at, at)          # never read afterwards
                        else:
                            lines[at] = 'zz%d = undefined_name_%d' % (at, at)
                        planted = at + 1          # local line (1-based) in the active code
                        sub.replace_main('\n'.join(lines))
                o['planted_local_line'] = planted
                o['code_len'] = len(lines)
                if kind == 'verify':
                    guarded(o, verify)
                else:
                    guarded(o, tifa_analysis)
                if planted is not None:
                    sub.replace_main(code)      # put the section text back
                    o['main_code'] = sub.main_code
            elif kind == 'run_syntax':
                code = sub.main_code
                lines = code.split('\n')
                real = [i for i, ln in enumerate(lines) if ln.strip() and not ln.startswith('#')]
                planted = None
                if real:
                    at = real[op['at'] % len(real)]
                    top_level = [i for i in real if not lines[i].startswith((' ', '\t')) and not lines[i].rstrip().endswith(':')]
                    if op.get('imported') and top_level and not via_set_source:
                        at = top_level[op['at'] % len(top_level)]
                        lines[at] = 'import helper_bad'
                        o['imported_file_line'] = HELPER_BAD_LINE
                    else:
                        lines[at] = lines[at] + ' = = 1'
                    planted = at + 1
                    sub.replace_main('\n'.join(lines))
                o['planted_local_line'] = planted
                if planted is not None:
                    guarded(o, lambda: run())
                    sub.replace_main(code)
                    o['main_code'] = sub.main_code
                else:
                    o['new_feedback'] = []
                    snap(o)
            elif kind == 'run':
                # fault enumeration inside the op: fault-free first, then every LINE event of the active code
                base = {'op': 'run'}
                MONITOR.reset_counts()
                guarded(base, lambda: run())
                n_events = MONITOR.nS
                o = base
                o['student_events'] = n_events
                o['after_stop'] = bool(op.get('after_stop'))
                o['faulted'] = []
                for k in range(1, min(n_events, 12) + 1):
                    fo = {'k': k}
                    MONITOR.reset_counts()
                    nf = len(MONITOR.fired)
                    MONITOR.arm({'kind': 'sync_student', 'k': k, 'exc': op['exc']})
                    try:
                        guarded(fo, lambda: run())
                    finally:
                        MONITOR.arm(None)
                    fired = MONITOR.fired[nf:]
                    fo['fired_line'] = fired[0]['line'] if fired else None
                    fo.pop('main_code', None)
                    o['faulted'].append(fo)
            elif kind == 'check_exists':
                from pedal.source import check_section_exists
                guarded(o, lambda: check_section_exists(op['n']))
                o['source_success'] = MAIN_REPORT[TOOL_NAME].get('success')
            elif kind == 'call':
                from pedal.sandbox.commands import call
                base = {'op': 'call'}
                guarded(base, lambda: run())
                o = base
                o['faulted'] = []
                o['fn_defined'] = sorted(n for n in get_sandbox().data if n.startswith('g') and n[1:].isdigit())
                for fn in o['fn_defined']:
                    for k in (1, 2, 3):
                        fo = {'k': k, 'fn': fn}
                        MONITOR.reset_counts()
                        nf = len(MONITOR.fired)
                        MONITOR.arm({'kind': 'sync_student', 'k': k, 'exc': op['exc']})
                        try:
                            guarded(fo, lambda: call(fn, 1))
                        finally:
                            MONITOR.arm(None)
                        fired = MONITOR.fired[nf:]
                        fo['fired_line'] = fired[0]['line'] if fired else None
                        fo.pop('main_code', None)
                        o['faulted'].append(fo)
            elif kind == 'crash':
                # the instructor flow aborts inside a section (an exception in the script), then resolve() runs
                o['crash'] = op['exc']
                guarded(o, lambda: resolve())
            elif kind == 'stop_sections':
                guarded(o, stop_sections)
            elif kind == 'resolve':
                guarded(o, lambda: resolve())
            obs.append(o)
    finally:
        MONITOR.end()
    out['obs'] = obs
    out['digest'] = MONITOR.digest()
    return out


def run_spec(spec):
    return judge(spec, world.fork_run(execute, spec, timeout=60))


# --------------------------------------------------------------------------- oracle (by construction)

def judge(spec, res):
    vs = []
    pieces = spec['pieces']
    original = ''.join(pieces)
    M = spec['meta']['markers']
    indep = spec['independent']
    mode = spec['meta']['mode']
    obs = res['obs']

    def viol(inv, detail, extra=''):
        vs.append({'sig': 'C17/%s/%s%s' % (inv, mode, extra), 'detail': detail})

    def chunk(k):
        return pieces[2 * k]

    def offset(k):
        return ''.join(pieces[:2 * k]).count('\n')

    o0 = obs[0]
    if o0.get('raised'):
        viol('separate-raised', '%s' % (o0['raised'],))
        return vs
    as_text = isinstance(o0['sections'], list) and all(isinstance(x, str) for x in o0['sections'])
    if as_text and ''.join(o0['sections']) != original:
        viol('split-loses-text', 'sections do not concatenate back to the file')
        return vs
    # (the tool's own list is compared with the construction only if it has the same alternating shape; what the
    # property really speaks about -- the text presented for each section -- is checked below either way)
    if as_text and len(o0['sections']) == len(pieces) and o0['sections'] != pieces:
        viol('split-differs-from-construction', 'tool split %r..., built from %r...' % (o0['sections'][:3], pieces[:3]))
        return vs
    if o0['main_code'] != chunk(0):
        viol('section-text', 'prologue presented as %r, chunk 0 is %r' % (o0['main_code'][:40], chunk(0)[:40]), '/section=0')
        return vs
    k = 0
    active = True          # a section (incl. the prologue) is active
    past_end = False
    past_end_whole = False
    stack_tolerant = False
    stopped = False
    for op, o in zip(spec['ops'], obs[1:]):
        kind = op['op']
        if o.get('raised') and kind not in ('crash',):
            where = 'past-the-end' if (kind == 'next_section' and k + 1 > M) else ('section' if active else 'after-stop')
            viol('%s-raised' % kind, '%s raised %s(%s) at %s' % (kind, o['raised']['cls'], o['raised']['str'], o['raised']['where']),
                 '/%s/as=%s' % (where, o['raised']['cls']))
            return vs
        if kind == 'separate_again':
            if stopped:
                continue
            if op.get('via_set_source'):
                stack_tolerant = True      # set_source keeps backups of its own on the stack (restore_code() takes them off)
            k = 0
            past_end = False
            past_end_whole = False
            if o['main_code'] != chunk(0):
                viol('section-text', 'after separating again the prologue is presented as %r, chunk 0 is %r' % (
                    o['main_code'][:40], chunk(0)[:40]), '/section=0/separated-again')
                return vs
            continue
        if kind == 'next_section':
            if stopped:
                continue
            k += 1
            if k <= M:
                want = chunk(k) if indep else ''.join(pieces[:2 * k + 1])
                if o['main_code'] != want:
                    viol('section-text', 'section %d presented as %r, expected %r' % (k, o['main_code'][:50], want[:50]), '/section=later')
                    return vs
            else:
                past_end = True
                # whatever is presented now (pedal: the whole file again), its diagnostics speak about the original file
                past_end_whole = o['main_code'] == original
                labels = [f['label'] for f in o['new_feedback']]
                if 'not_enough_sections' not in labels:
                    viol('past-the-end-without-feedback', 'section %d of %d requested, feedback added: %s' % (k, M, labels))
                    return vs
            continue
        cur_off = 0
        if active and not past_end and not stopped and indep and 0 < k <= M:
            cur_off = offset(k)
        in_section = active and not stopped and not past_end
        whole_after_past_end = active and not stopped and past_end and past_end_whole
        if kind in ('verify', 'tifa') and o.get('planted_local_line') is not None and (in_section or stopped):
            want_line = cur_off + o['planted_local_line']
            fl = op.get('flavour', 0) % 3
            if kind == 'verify':
                label_set = ('syntax_error', 'indentation_error')
            else:
                label_set = [('initialization_problem',), ('iterating_over_non_list',), ('unused_variable',)][fl]
            hits = [f for f in o['new_feedback'] if f['label'] in label_set]
            if kind == 'tifa' and fl == 0:
                hits = [f for f in hits if f.get('name_field') == 'undefined_name_%d' % (o['planted_local_line'] - 1)]
            elif kind == 'tifa' and fl == 2:
                hits = [f for f in hits if f.get('name_field') == 'unused_name_%d' % (o['planted_local_line'] - 1)]
            if not hits:
                continue            # the planted defect was not diagnosed at all: not this property's business
            f = hits[0]
            if f['line'] != want_line:
                viol('%s-line' % ('syntax' if kind == 'verify' else 'tifa:%s' % label_set[0]), 'defect planted on original line %d (section %d, local line %d); '
                     'feedback located at %r' % (want_line, k, o['planted_local_line'], f['line']),
                     '/section=%s' % ('prologue' if k == 0 else 'later'))
                return vs
            if kind == 'verify':
                for n in f['tb_text_lines'][-1:]:
                    if n != want_line:
                        viol('syntax-traceback-line', 'traceback text says line %d, original line is %d' % (n, want_line),
                             '/section=%s' % ('prologue' if k == 0 else 'later'))
                        return vs
        if kind == 'run_syntax' and o.get('planted_local_line') is not None and (in_section or whole_after_past_end):
            rt = [f for f in o['new_feedback'] if f['category'] == 'runtime' and f.get('exception_name') in ('SyntaxError', 'IndentationError')]
            if len(rt) == 1 and o.get('imported_file_line') is not None:
                # the error is in the imported file: its own line there, whatever section is active
                if rt[0]['line'] != o['imported_file_line']:
                    viol('compile-error-location-line', 'syntax error on line %d of the imported helper_bad.py; run() located it at %r'
                         % (o['imported_file_line'], rt[0]['line']), '/in-imported-file')
                    return vs
            elif len(rt) == 1:
                f = rt[0]
                want_line = cur_off + o['planted_local_line']
                where = 'past-the-end' if past_end else ('prologue' if k == 0 else 'later')
                if f['line'] != want_line:
                    viol('compile-error-location-line', 'syntax error planted on original line %d (section %d, local line %d); run() located it at %r'
                         % (want_line, k, o['planted_local_line'], f['line']), '/section=%s' % where)
                    return vs
                if f['tb_text_lines'] and f['tb_text_lines'][-1] != want_line:
                    viol('compile-error-traceback-line', 'syntax error on original line %d; traceback text says line %d' % (
                        want_line, f['tb_text_lines'][-1]), '/section=%s' % where)
                    return vs
        if kind == 'run' and (in_section or whole_after_past_end or (stopped and o.get('after_stop'))):
            for fo in o.get('faulted', []):
                if fo.get('raised'):
                    viol('run-raised', 'run() raised %s' % (fo['raised'],), '/as=%s' % fo['raised']['cls'])
                    return vs
                if fo['fired_line'] is None:
                    continue
                rt = [f for f in fo['new_feedback'] if f['category'] == 'runtime']
                if len(rt) != 1:
                    continue       # swallowed or C04 territory
                f = rt[0]
                want_line = (0 if stopped else cur_off) + fo['fired_line']
                where = 'after-stop' if stopped else ('past-the-end' if past_end else ('prologue' if k == 0 else 'later'))
                if f['line'] != want_line:
                    viol('runtime-location-line', 'exception raised on original line %d (section %d, local line %d); feedback.location.line = %r'
                         % (want_line, k, fo['fired_line'], f['line']), '/section=%s' % where)
                    return vs
                if f['tb_text_lines'] and f['tb_text_lines'][-1] != want_line:
                    viol('runtime-traceback-line', 'exception raised on original line %d; traceback text says line %d' % (
                        want_line, f['tb_text_lines'][-1]), '/section=%s' % where)
                    return vs
                # ... and the source line quoted under that number is that line of the original file
                olines = original.split('\n')
                for n, quoted in (f.get('tb_text_quotes') or [])[-1:]:
                    if 1 <= n <= len(olines) and quoted.strip(' \t\x0c') != olines[n - 1].strip(' \t\x0c') \
                            and quoted.strip() and olines[n - 1].strip() and '\u2028' not in olines[n - 1] and '\x0b' not in olines[n - 1]:
                        viol('runtime-traceback-quotes-another-line', 'traceback text shows %r as line %d; line %d of the file is %r' % (
                            quoted.strip()[:50], n, n, olines[n - 1].strip()[:50]), '/section=%s' % where)
                        return vs
        if kind == 'check_exists' and not stopped:
            # "are there at least n sections": feedback exactly when there are fewer (the tool stays silent once a
            # syntax error has been found in the current code)
            said = any(f['label'] == 'incorrect_number_of_sections' for f in o['new_feedback'])
            if said and op['n'] <= M:
                viol('section-count-feedback-although-enough', 'asked for %d of %d sections and got incorrect_number_of_sections' % (op['n'], M))
                return vs
            if not said and op['n'] > M and o.get('source_success') is not False:
                viol('section-count-feedback-missing', 'asked for %d sections, the file has %d, no feedback' % (op['n'], M))
                return vs
        if kind == 'call' and in_section:
            own = spec.get('funcs', {}).get(str(k)) if indep else None
            for fo in o.get('faulted', []):
                if fo.get('raised'):
                    viol('call-raised', 'call() raised %s' % (fo['raised'],), '/as=%s' % fo['raised']['cls'])
                    return vs
                if fo['fired_line'] is None:
                    continue
                # independent mode: only the function defined by the ACTIVE section has line numbers relative to it;
                # cumulative mode: every function was compiled from a prefix of the file, so its lines are file lines
                # ... a function that an EARLIER section defined (it is still in the student namespace) has line numbers
                # relative to that section
                fn_off = cur_off
                foreign = ''
                if indep and fo['fn'] != (own if k > 0 else spec.get('funcs', {}).get('0')):
                    home = next((int(j) for j, name in spec.get('funcs', {}).items() if name == fo['fn']), None)
                    if home is None:
                        continue
                    fn_off = offset(home) if home > 0 else 0
                    foreign = '/function-of-another-section'
                rt = [f for f in fo['new_feedback'] if f['category'] == 'runtime']
                if len(rt) != 1:
                    continue
                f = rt[0]
                want_line = fn_off + fo['fired_line']
                where = ('prologue' if k == 0 else 'later') + foreign
                if f['line'] != want_line:
                    viol('call-location-line', 'exception raised in %s on original line %d (section %d, local line %d); feedback.location.line = %r'
                         % (fo['fn'], want_line, k, fo['fired_line'], f['line']), '/section=%s' % where)
                    return vs
                if f['tb_text_lines'] and f['tb_text_lines'][-1] != want_line:
                    viol('call-traceback-line', 'exception raised in %s on original line %d; traceback text says line %d' % (
                        fo['fn'], want_line, f['tb_text_lines'][-1]), '/section=%s' % where)
                    return vs
        if kind in ('stop_sections', 'resolve', 'crash'):
            if o['main_code'] != original:
                viol('main-code-not-restored', 'after %s main_code is %r...' % (kind, o['main_code'][:40]), '/after=%s' % kind)
                return vs
            if o.get('substitutions') and not stack_tolerant:
                viol('substitution-stack-not-empty', 'after %s: %d substitution(s) left' % (kind, o['substitutions']), '/after=%s' % kind)
                return vs
            stopped = True
            active = False
    return vs


def run_task(task):
    out = {'runs': 0, 'violations': [], 'counters': {}, 'sets': {'distinct_nontrivial': [], 'digests': []},
           'samples': [], 'harness': [], 'virtual_s': 0.0}
    cnt = out['counters']

    def bump(name, n=1):
        cnt[name] = cnt.get(name, 0) + n

    for sd in task['seeds']:
        spec = build(sd, task['tier'])
        res = world.fork_run(execute, spec, timeout=60)
        out['runs'] += 1
        out['sets']['digests'].append(res['digest'])
        for v in judge(spec, res):
            v['spec'] = spec
            out['violations'].append(v)
        diag = 0
        bump('markers:%d' % spec['meta']['markers'])
        bump('mode:%s' % spec['meta']['mode'])
        bump('pattern:%s' % spec['pname'])
        for o in res['obs']:
            bump('op:%s' % o['op'])
            for fo in o.get('faulted', []):
                if fo.get('fired_line') is not None:
                    bump('fault_fired:sync_student')
                    diag += 1
            if o.get('planted_local_line') is not None:
                bump('planted_defect:%s' % o['op'])
                diag += 1
            if o['op'] == 'crash':
                bump('fault_fired:script_crash_then_resolve')
            if o['op'] == 'next_section' and any(f['label'] == 'not_enough_sections' for f in o.get('new_feedback', [])):
                bump('probe:next_section_past_the_end')
        if spec['meta']['markers'] >= 1 and diag:
            out['sets']['distinct_nontrivial'].append(res['digest'])
        if not out['samples'] and spec['meta']['markers'] >= 2:
            out['samples'].append({'file': ''.join(spec['pieces']), 'mode': spec['meta']['mode'], 'pattern': spec['pname'],
                                   'ops': spec['ops']})
    return out


def shrink_moves(spec):
    import copy
    ops = spec['ops']
    for i in reversed(range(len(ops))):
        c = copy.deepcopy(spec)
        del c['ops'][i]
        yield c


def evidence_extra(agg):
    return {'fault_kinds_fired': {k.split(':', 1)[1]: v for k, v in agg.counters.items() if k.startswith('fault_fired:')},
            'distinct_event_log_digests': len(agg.sets.get('digests', ()))}


def probe_warnings(agg):
    return ['%s never hit' % p for p in ('probe:next_section_past_the_end', 'fault_fired:sync_student', 'planted_defect:verify',
                                         'planted_defect:tifa') if agg.counters.get(p, 0) == 0]
