"""C04 -- student-code failures are contained and reported, never raised into the grader.

Fault enumeration: for each workload program (generated, or one of the special
termination classes) the fault-free execution counts the student LINE events N of the
faulted op; then every crash point k in 1..N x every exception class of the catalogue is
injected at that point, in a fresh forked child each, through run()/call()/evaluate()/
nested student import, with every tracer style, threaded or not.  The plain-CPython
reference executor receives the same fault and tells whether it escapes the program.
"""
import os
import sys

sys.path.insert(0, os.path.dirname(os.path.dirname(os.path.abspath(__file__))))

from sim import faults, progs, sbx, seeds, world  # noqa: E402
from sim.shrinkers import sbx_moves  # noqa: E402

ID = 'C04'
LEVEL = 'fault_enumeration'
BUDGET = {'quick': 75, 'thorough': 780}
RULE = ('workload: seeded CS1-grammar programs + %d special termination programs (input generation); '
        'decided by: every student LINE event k of the faulted op x every exception class of the catalogue '
        'injected at k (sys.monitoring), one forked child per (program, entry, tracer, threaded, k, class); '
        'distinct_nontrivial = distinct (program digest, entry, tracer, threaded, k, class) whose fault actually '
        'fired plus distinct special programs whose natural failure occurred' % len(progs.SPECIAL))
ASSUMPTIONS = [
    'crash points are LINE-event boundaries of student code (not individual bytecodes)',
    'an exception raised from the monitoring callback is equivalent to one raised by the line about to run '
    '(its traceback is spliced so the innermost entry is the student line)',
    'BaseException subclasses other than SystemExit are outside C04 (its quantifier lists Exception subclasses and '
    'SystemExit); their containment of process state is judged by C05',
    'threaded=True executions here are terminating programs only (expiry is C14)',
]
COMPONENTS = {'real': ['pedal.sandbox (Sandbox, commands, feedbacks, mocked, tracer, timeout)', 'pedal.core report/feedback',
                       'pedal.utilities.exceptions', 'CPython compile/exec', 'unittest.mock patches'],
              'stub': ['time.* (virtual clock)', 'console streams', 'synthetic student programs']}

TRACERS_QUICK = ['none', 'native', 'calls']
TRACERS_THOROUGH = ['none', 'native', 'calls', 'coverage']

# expected exception class names (any of) for the special programs; None = just be consistent
SPECIAL_EXPECT = {
    'exit_call': None, 'sys_exit': ['SystemExit'], 'sys_exit_str': ['SystemExit'], 'raise_system_exit': ['SystemExit'],
    'quit_call': ['SystemExit'],
    'recursion': ['RecursionError'], 'recursion_method': ['RecursionError'], 'mutual_recursion': ['RecursionError'],
    'syntax_error': ['SyntaxError'], 'syntax_unclosed': ['SyntaxError'], 'indentation_error': ['IndentationError'],
    'tab_error': ['TabError', 'IndentationError'], 'nul_byte': ['SyntaxError', 'ValueError'],
    'nul_byte_bare': ['SyntaxError', 'ValueError'],
    'blocked_compile': None, 'blocked_eval': None, 'blocked_exec': None, 'blocked_globals': None,
    'blocked_open_write': None, 'blocked_open_py': None, 'blocked_open_dot': None,
    'import_pedal': None, 'import_pedal_sub': None, 'import_missing': ['ModuleNotFoundError', 'ImportError'],
    'raise_in_str': ['E'], 'raise_in_repr': ['E'], 'raise_str_returns_nonstr': ['E'],
    'raise_from': ['ValueError'], 'raise_in_finally': ['KeyError'], 'raise_class_not_instance': ['ValueError'],
    'raise_non_exception': ['TypeError'], 'exception_group': ['ExceptionGroup'], 'name_error': ['NameError'],
    'deep_traceback': ['ValueError'], 'key_error_tuple': ['KeyError'], 'unicode_error': ['UnicodeDecodeError'],
    'stop_iteration': ['StopIteration'], 'generator_raise': ['ValueError'], 'empty_message': ['ValueError'],
    'lowercase_message': ['ValueError'], 'multiline_message': ['ValueError'], 'braces_message': ['ValueError'],
    'os_error_args': ['FileNotFoundError', 'OSError'], 'assert_false': ['AssertionError'],
    'stdout_close_then_print': ['ValueError'], 'del_builtin_use': ['TypeError'], 'many_inputs_then_fail': ['ZeroDivisionError'],
}
# special programs that END NORMALLY under CPython (the sandbox must record no failure)
SPECIAL_NORMAL = {'stdout_close'}
# the line (1-based, in answer.py) on which the natural failure is raised, where that is a student line
SPECIAL_LINE = {
    # only programs whose failure is raised ON a student line (a raise statement, or a C-level operation
    # called from it: C functions have no frame, so the innermost traceback entry is the student line).
    # exit()/quit()/blocked builtins/imports raise inside library or pedal frames, compile errors are raised
    # by compile(): the property makes no location promise for those.
    'sys_exit': 3, 'sys_exit_str': 2, 'raise_system_exit': 2,
    'raise_in_str': 4, 'raise_in_repr': 4, 'raise_str_returns_nonstr': 4, 'raise_from': 4, 'raise_in_finally': 4,
    'raise_class_not_instance': 1, 'raise_non_exception': 1, 'exception_group': 1, 'name_error': 1,
    'deep_traceback': 3, 'key_error_tuple': 2, 'unicode_error': 1, 'stop_iteration': 1, 'generator_raise': 3,
    'empty_message': 1, 'lowercase_message': 1, 'multiline_message': 1, 'braces_message': 1, 'os_error_args': 1,
    'assert_false': 1, 'del_builtin_use': 2, 'stdout_close_then_print': 4, 'many_inputs_then_fail': 4,
}


# --------------------------------------------------------------------------- tasks

def tasks(base_seed, tier):
    out = []
    tracers = TRACERS_QUICK if tier == 'quick' else TRACERS_THOROUGH
    n_prog = 150 if tier == 'quick' else 2000
    # specials first: natural termination classes under every tracer / threaded
    i = 0
    for name in sorted(progs.SPECIAL):
        for tr in tracers:
            for threaded in (False, True):
                out.append({'id': 'special:%s:%s:%d' % (name, tr, threaded), 'kind': 'special', 'name': name,
                            'tracer': tr, 'threaded': threaded, 'tier': tier})
    for i in range(n_prog):
        out.append({'id': 'prog:%d' % i, 'kind': 'prog', 'seed': seeds.run_seed(base_seed, i), 'tier': tier})
    return out


def determinism_sample(tasks_):
    progs_ = [t for t in tasks_ if t['kind'] == 'prog'][:12]
    sp = [t for t in tasks_ if t['kind'] == 'special'][:8]
    return progs_ + sp


def build_program_task(task):
    """seed -> (files as statement lists, entry, ops prefix, faulted op, config)"""
    st = seeds.streams(task['seed'])
    rc = st[seeds.CONFIG]
    tier = task['tier']
    entry = rc.choice(['run', 'run', 'call', 'evaluate', 'import'])
    tracers = TRACERS_QUICK if tier == 'quick' else TRACERS_THOROUGH
    tracer = rc.choice(tracers)
    threaded = rc.random() < 0.25
    size = rc.randint(2, 7 if tier == 'quick' else 12)
    prog = progs.gen_program(st[seeds.PROGRAM], size=size, with_helper=(entry == 'import'),
                             planted_raise=rc.random() < 0.2)
    files = prog['files']
    inputs = [rc.choice(['5', '12', 'abc', '', '3.5']) for _ in range(rc.randint(0, 3))]
    ops = []
    if entry in ('call', 'evaluate'):
        # need a student function: append a deterministic one so the entry point always exists
        fname = 'target_fn'
        body = progs.ProgGen(st[seeds.OPS], allow_input=True, name_prefix='q')
        lines = ['def %s(a, b):' % fname]
        inner = []
        for _ in range(rc.randint(1, 4)):
            c = rc.random()
            if c < 0.4:
                inner.extend(body.print_stmt())
            elif c < 0.6:
                inner.append('a = a + %d' % rc.randint(0, 3))
            elif c < 0.75:
                inner += ['if a > b:', '    b = b + a']
            elif c < 0.9:
                inner += ['for _j in range(2):', '    a += _j']
            else:
                inner.extend(body.input_stmt(local=True))
        inner.append('return a * 2 + b')
        files['answer.py'] = [['import sys']] + [lines + progs.indent(inner)] + files['answer.py']
        ops.append({'op': 'run', 'inputs': inputs})
        args = [rc.randint(-3, 9), rc.randint(-3, 9)]
        if entry == 'call':
            ops.append({'op': 'call', 'fn': fname, 'args': args, 'threaded': threaded})
        else:
            ops.append({'op': 'evaluate', 'expr': '%s(%d, %d)' % (fname, args[0], args[1]), 'threaded': threaded})
    else:
        ops.append({'op': 'run', 'inputs': inputs, 'threaded': threaded})
    cfg = {'tracer': tracer, 'ref': True}
    if threaded and rc.random() < (0.6 if entry == 'import' else 0.2):
        cfg['sandbox_threaded'] = True      # sandbox-wide threaded mode: the nested import runs in a thread of its own
    if rc.random() < 0.12:
        cfg['full_traceback'] = True
    spec = {'files': files, 'config': cfg, 'ops': ops,
            'meta': {'entry': entry, 'threaded': threaded, 'tracer': tracer, 'seed': task['seed']}}
    return spec


def with_fault(spec, k, exc):
    s = {'files': spec['files'], 'config': spec['config'], 'meta': spec['meta'],
         'ops': [dict(o) for o in spec['ops']]}
    s['ops'][-1]['fault'] = {'kind': 'sync_student', 'k': k, 'exc': exc}
    return s


def classes_for(tier, rng=None):
    return faults.ORDINARY + faults.BROKEN + faults.EXITS


# --------------------------------------------------------------------------- execution

def materialise(spec):
    files = {}
    for name, v in spec['files'].items():
        files[name] = progs.source(v) if isinstance(v, list) else v
    s = dict(spec)
    s['files'] = files
    return s


def execute(spec):
    return sbx.execute(materialise(spec))


def run_spec(spec):
    res = world.fork_run(execute, spec, timeout=60)
    return judge(spec, res)


def prog_digest(spec):
    import hashlib
    import json
    return hashlib.blake2b(json.dumps(spec['files'], sort_keys=True).encode(), digest_size=6).hexdigest()


def run_task(task):
    out = {'runs': 0, 'violations': [], 'counters': {}, 'sets': {'distinct_nontrivial': [], 'digests': [], 'sites': []},
           'samples': [], 'harness': [], 'virtual_s': 0.0}
    cnt = out['counters']

    def bump(name, n=1):
        cnt[name] = cnt.get(name, 0) + n

    def one(spec):
        res = world.fork_run(execute, spec, timeout=60)
        out['runs'] += 1
        out['virtual_s'] += res.get('virtual_s', 0.0)
        out['sets']['digests'].append(res['digest'])
        vs = judge(spec, res)
        for v in vs:
            v['spec'] = spec
            out['violations'].append(v)
        return res

    if task['kind'] == 'special':
        spec = progs.special_program(task['name'])
        spec = {'files': spec['files'], 'config': {'tracer': task['tracer'], 'ref': False},
                'ops': [{'op': 'run', 'threaded': task['threaded'], 'noref': True}],
                'meta': {'entry': 'run', 'special': task['name'], 'threaded': task['threaded'], 'tracer': task['tracer']}}
        res = one(spec)
        o = res['obs'][-1]
        bump('special_runs')
        if o['sb_exc'] is not None or o['escaped'] is not None:
            bump('natural_failures')
            out['sets']['distinct_nontrivial'].append('special:%s:%s:%d' % (task['name'], task['tracer'], task['threaded']))
        if len(out['samples']) < 1:
            out['samples'].append({'special': task['name'], 'tracer': task['tracer'], 'threaded': task['threaded'],
                                   'source': progs.source(spec['files']['answer.py']),
                                   'sandbox_exception': o['sb_exc'] and o['sb_exc']['cls'],
                                   'runtime_feedback': [f['cls'] for f in o['new_feedback'] if f['category'] == 'runtime'],
                                   'escaped': o['escaped']})
        return out

    base = build_program_task(task)
    res = one(base)
    o = res['obs'][-1]
    bump('baseline_runs')
    if o['escaped'] is not None:
        return out
    N = o['nS']
    ref_n = o['ref']['nS'] if o.get('ref') else N
    cap = 25 if task['tier'] == 'quick' else 80
    ks = list(range(1, min(N, cap) + 1))
    pd = prog_digest(base)
    meta = base['meta']
    classes = classes_for(task['tier'])
    if task['tier'] == 'quick':
        # every k x a rotating third of the catalogue keeps the quick tier inside its budget while
        # every class is still injected at every third crash point of every program
        pass
    for k in ks:
        for ci, exc in enumerate(classes):
            if task['tier'] == 'quick' and (ci + k) % 3 != 0:
                continue
            spec = with_fault(base, k, exc)
            r = one(spec)
            fo = r['obs'][-1]
            if fo['fired']:
                bump('fault_fired:sync_student')
                bump('fault_class:%s' % faults.family(exc))
                f = fo['fired'][0]
                out['sets']['sites'].append('%s:%s:%d' % (f['file'], f['func'], f['line']))
                out['sets']['distinct_nontrivial'].append('%s:%s:%s:%d:%d:%s' % (
                    pd, meta['entry'], meta['tracer'], meta['threaded'], k, exc))
                if k > ref_n:
                    bump('probe:fault_landed_in_student_code_called_while_recording')
                if f['file'] != 'answer.py':
                    bump('probe:fault_landed_in_imported_student_file')
                if fo.get('ref') and fo['ref']['outcome'] is None:
                    bump('probe:fault_swallowed_by_student_try')
            else:
                bump('fault_not_reached')
    bump('entry:%s' % meta['entry'])
    bump('tracer:%s' % meta['tracer'])
    bump('threaded:%s' % meta['threaded'])
    if N > cap:
        bump('programs_truncated_at_cap')
    if not out['samples']:
        out['samples'].append({'program': progs.source(base['files']['answer.py']), 'entry': meta['entry'],
                               'tracer': meta['tracer'], 'threaded': meta['threaded'], 'student_line_events': N,
                               'crash_points_enumerated': len(ks), 'classes_per_point': len(classes),
                               'ops': base['ops']})
    return out


# --------------------------------------------------------------------------- oracle

def judge(spec, res):
    """Pure function of plain data -> list of violations."""
    vs = []
    meta = spec.get('meta', {})
    entry = meta.get('entry', 'run')
    o = res['obs'][-1]
    op = spec['ops'][-1]
    fault = op.get('fault')
    fam = None
    phase = ''
    if fault:
        fam = faults.family(fault['exc'])
        if fam == 'BaseException':
            return vs      # outside C04's quantifier; C05 judges the process state
    special = meta.get('special')
    ref = o.get('ref')
    tag = 'special:%s' % special if special else (fam or 'natural')
    ctx = '%s/%s' % (entry, tag) + ('/threaded' if meta.get('threaded') else '')

    def viol(inv, detail, extra=''):
        vs.append({'sig': 'C04/%s/%s%s' % (inv, ctx, extra), 'detail': detail})

    # 1. the call returns
    if o['escaped'] is not None:
        viol('escape', 'op raised %s(%s) at %s' % (o['escaped']['cls'], o['escaped']['str'][:80], o['escaped']['where'][-2:]),
             '/as=%s' % o['escaped']['cls'])
        return vs
    runtime = [f for f in o['new_feedback'] if f['category'] == 'runtime']
    # what should have happened?
    if special:
        names = SPECIAL_EXPECT.get(special)
        exp = {'any_of': names, 'line': SPECIAL_LINE.get(special), 'must_fail': special not in SPECIAL_NORMAL}
        if 'recursion' in special and meta.get('tracer') != 'none':
            # with a Python-level tracer the limit is usually hit inside the tracer's own frame, not on a student line
            exp['line'] = None
    elif ref is not None:
        if fault and o['fired'] and not ref['fired']:
            phase = '/phase=record'
        ro = ref['outcome']
        if ro is None:
            exp = {'must_fail': False}
        else:
            exp = {'any_of': [ro['cls']], 'line': ro['line'] if ro['innermost_student'] else None, 'must_fail': True,
                   'file': ro['file']}
    else:
        return vs
    if not exp['must_fail']:
        if o['sb_exc'] is not None:
            viol('spurious-exception', 'program ends normally under CPython but sandbox.exception is %s' % o['sb_exc']['cls'], phase)
        if runtime:
            viol('spurious-feedback', 'program ends normally but %d runtime feedback added' % len(runtime), phase)
        return vs
    sx = o['sb_exc']
    if sx is None:
        viol('no-exception-recorded', 'program fails with %s but sandbox.exception is None' % (exp.get('any_of'),), phase)
    else:
        if exp.get('any_of') and not (set(exp['any_of']) & set(sx['mro'])):
            viol('wrong-exception-class', 'expected %s, sandbox.exception is %s' % (exp['any_of'], sx['cls']), phase)
    if len(runtime) != 1:
        viol('runtime-feedback-count=%d' % len(runtime), 'expected exactly one runtime feedback, got %s'
             % ([f['cls'] for f in runtime],), phase)
    else:
        f = runtime[0]
        if sx is not None and f['exception_name'] != sx['cls']:
            viol('feedback-describes-other-class', 'feedback says %s, exception is %s' % (f['exception_name'], sx['cls']), phase)
        if exp.get('any_of') and f['exception_name'] is not None and sx is None \
                and f['exception_name'] not in exp['any_of']:
            viol('feedback-describes-other-class', 'feedback says %s, expected %s' % (f['exception_name'], exp['any_of']), phase)
        if exp.get('line') is not None and exp.get('file', 'answer.py') in ('answer.py', 'helper.py'):
            # (a line of the imported student file is a student line as well)
            in_file = exp.get('file', 'answer.py')
            if f['line'] != exp['line']:
                viol('wrong-line', 'failure raised on student line %s%s, feedback located at %r' % (
                    exp['line'], '' if in_file == 'answer.py' else ' of ' + in_file, f['line']),
                    phase + ('' if in_file == 'answer.py' else '/in-imported-file'))
            else:
                # the rendered traceback ends on the same student line
                import re as _re
                shown = [int(n) for n in _re.findall(r'Line (\d+) of file %s' % _re.escape(in_file), f.get('traceback_message') or '')]
                if shown and shown[-1] != exp['line']:
                    viol('traceback-text-ends-elsewhere', 'failure raised on student line %s, traceback text ends at line %s' % (
                        exp['line'], shown[-1]), phase)
        if not o.get('sb_feedback_is_new'):
            viol('sandbox-feedback-not-the-new-one', 'sandbox.feedback is not the runtime feedback attached for this execution', phase)
    return vs


def shrink_moves(spec):
    return sbx_moves(spec)


def evidence_extra(agg):
    return {'fault_kinds_fired': {k.split(':', 1)[1]: v for k, v in agg.counters.items() if k.startswith('fault_fired:')},
            'distinct_crash_sites': len(agg.sets.get('sites', ())),
            'distinct_event_log_digests': len(agg.sets.get('digests', ())),
            'exception_catalogue': classes_for('thorough')}


def probe_warnings(agg):
    out = []
    for p in ('probe:fault_landed_in_student_code_called_while_recording', 'probe:fault_landed_in_imported_student_file',
              'probe:fault_swallowed_by_student_try'):
        if agg.counters.get(p, 0) == 0:
            out.append('%s never hit' % p)
    return out
