"""C20 -- each feedback call is recorded once, truthfully, and rendered from its fields.

Engine ``grd`` (bookkeeping part): seeded op histories on the shared MAIN_REPORT, a second
Report and the class attributes of a zoo of feedback classes (core commands + instructor
subclasses with custom condition / _get_message / templates with format specs / groups),
checked op by op against a bookkeeping model.  Faults are injected only through the
user-supplied callbacks the property names -- the k-th LINE event inside a subclass
``condition``, a subclass ``_get_message``, a custom Formatter method or a field value's
``__str__`` raises a catalogue exception -- so the oracle needs no knowledge of pedal's
internals.
"""
import os
import sys

sys.path.insert(0, os.path.dirname(os.path.dirname(os.path.abspath(__file__))))

from sim import faults, seeds, world  # noqa: E402
from sim.monitor import MONITOR  # noqa: E402
from sim.refexec import safe_str  # noqa: E402

ID = 'C20'
LEVEL = 'exploration'
BUDGET = {'quick': 75, 'thorough': 780}
RULE = ('seeded histories of 5-30 operations (construct a feedback with a seeded keyword mix on one of two reports, run a delayed '
        'condition, Cls.override(), clear_report(), contextualize_report(), set_formatter()) over 14 feedback classes, ~25 % of '
        'constructions with an exception injected at the k-th LINE event inside a user callback (condition / _get_message / '
        'Formatter method / field __str__); bookkeeping model checked after every op; distinct_nontrivial = distinct (op-history '
        'digest) of histories with >= 3 constructions')
ASSUMPTIONS = [
    'faults are Exception subclasses (the property speaks of conditions/messages that raise; BaseException subclasses are not caught by design)',
    'where the property is silent -- a fault while rendering the unused message of an untriggered feedback, or inside a group parent\'s '
    'child callback -- both outcomes are accepted (only exactly-once is checked)',
    'overrides are registered with MAIN_REPORT (the default); class attributes are compared by value and by ownership (own vs inherited)',
    'assert_* feedbacks are excluded (C07)',
]
COMPONENTS = {'real': ['pedal.core.feedback', 'pedal.core.report', 'pedal.core.formatting', 'pedal.core.commands'],
              'stub': ['zoo of instructor feedback classes / formatter / field objects (compiled under the instructor file name so that '
                       'their lines are fault points)']}

ZOO_SOURCE = '''
from pedal.core.feedback import Feedback, FeedbackResponse, FeedbackGroup
from pedal.core.formatting import Formatter, HtmlFormatter, TextFormatter
from pedal.core.commands import gently, explain, compliment, give_partial, guidance, set_correct, system_error, log, debug

class cond_fb(Feedback):
    title = "Conditional"
    category = Feedback.CATEGORIES.INSTRUCTOR
    message_template = "value {value} name {who:name} line {where:line}"
    justification = "cond_fb justification"
    def condition(self, outcome, **kwargs):
        result = outcome
        return result

class child_fb(cond_fb):
    title = "Child"
    message_template = "child {value:python_value} and {who}"

class grandchild_fb(child_fb):
    message_template = "grandchild {value:>6} | {who:name:>8}"

class msg_fb(Feedback):
    title = "Dynamic"
    category = Feedback.CATEGORIES.STUDENT
    def condition(self, outcome, **kwargs):
        return outcome
    def _get_message(self):
        text = "dynamic " + str(self.fields.get("value"))
        return text

class else_fb(Feedback):
    title = "WithElse"
    message_template = "main {value}"
    else_message_template = "else {value:name}"
    justification_template = "because {value}"
    def condition(self, outcome, **kwargs):
        return outcome

class resp_fb(FeedbackResponse):
    title = "Response"
    message_template = "resp {value}"

class notemplate_fb(Feedback):
    title = "Bare"

class const_fb(Feedback):
    title = "WithConstants"
    constant_fields = {"hint": "fixed hint"}
    message_template = "v {value} / {hint}"

class attr_fb(Feedback):
    title = "ReachesIntoFields"
    message_template = "attr {where.v} first {value[0]} file {who:filename}"
    def condition(self, outcome, **kwargs):
        return outcome

class group_fb(FeedbackGroup):
    title = "Group"
    message = "a group"
    children = None
    def _get_child_feedback(self, feedback, active):
        if self.children is None:
            self.children = []
        self.children.append((feedback, active))

class Loud(Formatter):
    def name(self, text):
        shown = "<" + str(text) + ">"
        return shown
    def line(self, number):
        shown = "L" + str(number)
        return shown
    def python_value(self, value):
        shown = "`" + str(value) + "`"
        return shown

class Field:
    def __init__(self, v):
        self.v = v
        self.value = "inner-" + str(v)      # attribute names a wrapper might use for itself
        self.key = "K" + str(v)
    def __str__(self):
        text = "F(" + str(self.v) + ")"
        return text
    def __eq__(self, other):
        return isinstance(other, Field) and other.v == self.v
'''

CALLBACKS = {'condition', '_get_message', 'name', 'line', 'python_value', '__str__'}
ZOO_CLASSES = ['cond_fb', 'child_fb', 'grandchild_fb', 'msg_fb', 'else_fb', 'resp_fb', 'notemplate_fb', 'const_fb', 'attr_fb', 'group_fb']
CORE_CLASSES = ['gently', 'explain', 'compliment', 'give_partial', 'guidance', 'set_correct', 'system_error', 'Feedback']
ATTRS = ['constant_fields', 'fields', 'title', 'message', 'message_template', 'else_message', 'else_message_template', 'category', 'kind', 'priority',
         'justification', 'justification_template', 'muted', 'unscored', 'score', 'correct', 'valence', 'label']
FAULT_CLASSES = faults.ORDINARY + faults.BROKEN
OUTCOMES = ['True', 'False', 'None', '0', '1', '5', "''", "'yes'", '[]', '[0]', '{}', '0.0', '-1']
VALUES = ['7', "'text'", 'None', '3.5', "'{braces}'", "Field(4)", "Field('x')", "[1, 2]", "'multi\\nline'", "''", 'True']


def tasks(base_seed, tier):
    n = 36000 if tier == 'quick' else 900000
    chunk = 60
    return [{'id': 'hist:%d' % i, 'tier': tier,
             'seeds': [seeds.run_seed(base_seed ^ 0xC20, j) for j in range(i, min(n, i + chunk))]}
            for i in range(0, n, chunk)]


def determinism_sample(tasks_):
    return tasks_[:3]


def build(seed, tier):
    st = seeds.streams(seed)
    r, rf = st[seeds.OPS], st[seeds.FAULTS]
    ops = []
    made = 0
    for i in range(r.randint(5, 30 if tier == 'thorough' else 18)):
        c = r.random()
        if c < 0.62:
            cls = r.choice(ZOO_CLASSES + ['gently', 'explain', 'compliment', 'give_partial', 'guidance', 'set_correct', 'system_error', 'Feedback',
                                          'log', 'debug'])
            op = {'op': 'make', 'cls': cls, 'kw': {}}
            kw = op['kw']
            if cls in ('log', 'debug'):
                # logging commands: the item is the message; they return nothing, the object is found in the report
                op['pos'] = [repr('note %d' % i)]
                if r.random() < 0.4:
                    op['pos'].append(repr('second item %d' % i))     # debug: one feedback per item; log: one, items joined
                if r.random() < 0.5:
                    kw['value'] = r.choice(VALUES)
                if r.random() < 0.2:
                    kw['report'] = '@second'
                if r.random() < 0.2:
                    kw['activate'] = r.choice(['False', 'True'])
                made += 1
                ops.append(op)
                continue
            if cls in ('cond_fb', 'child_fb', 'grandchild_fb', 'msg_fb', 'else_fb', 'attr_fb'):
                op['outcome'] = r.choice(OUTCOMES)
            if cls in ('gently', 'explain', 'compliment', 'guidance'):
                if r.random() < 0.6:
                    op['pos'] = [repr('msg %d' % i)]
                else:
                    kw['message_template'] = repr(r.choice(['tpl {value}', 'tpl {value:name} at {where:line}', 'plain',
                                                            'in {who:filename}', 'v {where.v}']))
            elif cls == 'give_partial':
                op['pos'] = [r.choice(['0.5', '1', '0'])]
            else:
                m = r.random()
                if m < 0.05:
                    kw['message'] = "''"            # an explicit message, which happens to be empty
                elif m < 0.25:
                    kw['message'] = repr('explicit %d' % i)
                elif m < 0.45:
                    kw['message_template'] = repr(r.choice(['custom {value}', 'custom {who:name} {where:line} {value:python_value}',
                                                            'no fields', '{value:>5}|', '', 'file {who:filename} {who:>7:filename}',
                                                            'reach {where.v} {value[0]}', '{value[0]:name}', 'inner {where.value} {where.key:name}']))
            for f in ('value', 'who', 'where'):
                if cls == 'give_partial' and f == 'value':
                    continue          # give_partial(value) takes its score positionally
                if r.random() < 0.8:
                    kw[f] = r.choice(VALUES) if f != 'where' else r.choice(['3', '10', 'None', "Field(9)"])
            if cls == 'const_fb' and r.random() < 0.35:
                kw['hint'] = r.choice(["'caller hint'", '7', "''"])       # a keyword named like one of the class's constants
            if r.random() < 0.15:
                kw['fields'] = "{'value': %s, 'extra': 1}" % r.choice(VALUES)
            if r.random() < 0.12:
                kw['location'] = r.choice(['4', '12'])
            if r.random() < 0.1:
                kw['field_names'] = "['value', 'who', 'where']"
            if r.random() < 0.1:
                kw['else_message'] = repr('else text %d' % i)
            if r.random() < 0.08:
                kw['justification'] = repr('because %d' % i)
            if r.random() < 0.25:
                # classes with their own condition ignore `activate` (it only drives the default condition)
                kw['activate'] = r.choice(['False', 'True', 'False'])
            if r.random() < 0.12:
                kw['delay_condition'] = 'True'
            p = r.random()
            if p < 0.12:
                kw['parent'] = '@group'
            elif p < 0.2:
                kw['parent'] = r.choice(['1', '2', "'section'"])
            if r.random() < 0.2:
                kw['report'] = '@second'
            if r.random() < 0.15:
                kw['label'] = repr('lbl%d' % i)
            if r.random() < 0.1:
                kw['title'] = repr('Title %d' % i)
            if rf.random() < 0.25:
                op['fault'] = {'kind': 'sync_instructor', 'k': rf.randint(1, 7), 'exc': rf.choice(FAULT_CLASSES)}
            made += 1
        elif c < 0.68:
            op = {'op': 'handle', 'which': r.randint(0, 40)}
            if rf.random() < 0.25:
                op['fault'] = {'kind': 'sync_instructor', 'k': rf.randint(1, 7), 'exc': rf.choice(FAULT_CLASSES)}
        elif c < 0.80:
            cls = r.choice(ZOO_CLASSES + CORE_CLASSES[:-1])
            attrs = {}
            for a in r.sample(['title', 'message_template', 'category', 'muted', 'priority', 'justification', 'score'], r.randint(1, 3)):
                attrs[a] = {'title': repr('Ovr %d' % i), 'message_template': repr('ovr {value}'), 'category': repr('instructor'),
                            'muted': 'True', 'priority': repr('high'), 'justification': repr('ovr just'), 'score': '0.25'}[a]
            op = {'op': 'override', 'cls': cls, 'attrs': attrs}
        elif c < 0.88:
            op = {'op': 'clear', 'report': r.choice(['main', 'main', 'second'])}
        elif c < 0.93:
            op = {'op': 'recontext'}
        else:
            op = {'op': 'set_formatter', 'formatter': r.choice(['Loud', 'Formatter', 'HtmlFormatter', 'TextFormatter']),
                  'report': r.choice(['main', 'main', 'second'])}
        ops.append(op)
    return {'ops': ops, 'meta': {'seed': seed}}


# --------------------------------------------------------------------------- model of field rendering

class ModelWrap:
    """The documented dispatch: a format spec ending in the name of a formatter method sends the raw value through that
    method; the remainder of the spec is applied to the result; no spec = str(value)."""

    def __init__(self, value, formatter, available=None):
        object.__setattr__(self, '_mw', (value, formatter))

    @property
    def _mw_value(self):
        return object.__getattribute__(self, '_mw')[0]

    @property
    def _mw_formatter(self):
        return object.__getattribute__(self, '_mw')[1]

    def __format__(self, spec):
        text = str(self._mw_value)
        # the method whose name the spec ends with; 'filename' is not 'name' (the longest name wins)
        hits = [n for n in MODEL_AVAILABLE if spec.endswith(n)]
        if hits:
            name = max(hits, key=len)
            spec = spec[:-len(name)]
            if spec.endswith(':'):
                spec = spec[:-1]
            text = getattr(self._mw_formatter, name)(self._mw_value)
        return format(text, spec)

    # a template may reach into a field: {node.lineno}, {names[0]} -- whatever the attribute is called ({node.value})
    def __getattr__(self, key):
        return ModelWrap(getattr(self._mw_value, key), self._mw_formatter)

    def __getitem__(self, index):
        return ModelWrap(self._mw_value[index], self._mw_formatter)

    def __str__(self):
        return str(self._mw_value)


MODEL_AVAILABLE = ['exception', 'filename', 'frame', 'traceback', 'inputs', 'line', 'name', 'output',
                   'python_code', 'python_expression', 'python_value', 'table']


def model_render(template, fields, formatter):
    wrapped = {k: ModelWrap(v, formatter) for k, v in fields.items()}
    return template.format(**wrapped)


# --------------------------------------------------------------------------- execution (in the forked child)

def execute(spec):
    world.install_console()
    world.install_virtual_time()
    from pedal.core.report import MAIN_REPORT, Report
    from pedal.core.submission import Submission
    from pedal.core import commands as core
    MONITOR.configure(student_files=[], instructor_files=['instructor.py'])
    MONITOR.begin(digest=True)
    ns = {}
    exec(compile(ZOO_SOURCE, 'instructor.py', 'exec'), ns)
    world.install_seeded_sets(MAIN_REPORT, spec['meta'].get('seed', 1) & 0xffff)
    second = Report()
    world.install_seeded_sets(second, 7)
    MAIN_REPORT.clear()
    reports = {'main': MAIN_REPORT, 'second': second}
    classes = {n: ns[n] for n in ZOO_CLASSES + CORE_CLASSES}
    missing = object()

    def class_state():
        out = {}
        for n, c in classes.items():
            out[n] = tuple((a, getattr(c, a, missing) if not isinstance(getattr(c, a, missing), (list, dict)) else repr(getattr(c, a)),
                            a in c.__dict__) for a in ATTRS)
        return out
    import_state = class_state()
    made = []         # [obj, report name, expected triggered|None(silent), delayed]
    group = [None]
    obs = []
    try:
        for i, op in enumerate(spec['ops']):
            o = {'op': op['op'], 'index': i}
            kind = op['op']
            if kind in ('make', 'handle'):
                target = None
                if kind == 'make':
                    kw = {}
                    for k, v in op['kw'].items():
                        if v == '@group':
                            if group[0] is None:
                                group[0] = ns['group_fb']()
                                made.append([group[0], 'main', True, False, {'op': 'make', 'cls': 'group_fb', 'kw': {}}])
                            kw[k] = group[0]
                        elif v == '@second':
                            kw[k] = second
                        else:
                            kw[k] = eval(v, ns)
                    pos = [eval(x, ns) for x in op.get('pos', [])]
                    given_fields_copy = dict(kw['fields']) if isinstance(kw.get('fields'), dict) else None
                    if 'outcome' in op:
                        pos = [eval(op['outcome'], ns)] + pos
                    cls = ns[op['cls']]
                    rep_name = 'second' if op['kw'].get('report') == '@second' else 'main'
                    rep = reports[rep_name]
                    thunk = lambda: cls(*pos, **kw)   # noqa: E731
                else:
                    delayed = [m for m in made if m[3]]
                    if not delayed:
                        o['skipped'] = True
                        obs.append(o)
                        continue
                    target = delayed[op['which'] % len(delayed)]
                    mop = target[4]
                    rep_name = target[1]
                    rep = reports[rep_name]
                    thunk = target[0]._handle_condition
                before_f = [id(x) for x in rep.feedback]
                before_i = [id(x) for x in rep.ignored_feedback]
                MONITOR.reset_counts()
                nfired = len(MONITOR.fired)
                MONITOR.arm(op.get('fault'))
                raised = None
                obj = None
                try:
                    try:
                        obj = thunk()
                    finally:
                        MONITOR.arm(None)
                except BaseException as e:   # noqa
                    raised = e
                fired = [dict(f) for f in MONITOR.fired[nfired:]]
                if kind == 'handle':
                    obj = target[0]
                    target[3] = False
                new_f = [x for x in rep.feedback if id(x) not in before_f]
                new_i = [x for x in rep.ignored_feedback if id(x) not in before_i]
                if obj is None and kind == 'make':
                    # the constructor raised, or the command returns nothing (log, debug): find the object it recorded
                    cand = new_f + new_i
                    obj = cand[-1] if cand else None
                o['raised'] = None if raised is None else {'cls': type(raised).__name__, 'str': safe_str(raised)[:80]}
                o['fired'] = fired
                o['n_new_triggered'] = len(new_f)
                o['n_new_untriggered'] = len(new_i)
                if obj is not None:
                    o['in_triggered'] = sum(1 for x in rep.feedback if x is obj)
                    o['in_untriggered'] = sum(1 for x in rep.ignored_feedback if x is obj)
                    other = reports['second' if rep_name == 'main' else 'main']
                    o['in_other_report'] = sum(1 for x in other.feedback + other.ignored_feedback if x is obj)
                    o['bool'] = bool(obj)
                    o['status'] = getattr(obj, '_status', None)
                    o['same_exception'] = raised is not None and getattr(obj, '_exception', None) is raised
                    par = getattr(obj, 'parent', None)
                    if par is not None and isinstance(par, ns['group_fb']):
                        told = [act for (child, act) in (par.children or []) if child is obj]
                        o['group_told'] = [bool(a) for a in told]
                    msg = getattr(obj, 'message', None)
                    o['message'] = msg if isinstance(msg, (str, type(None))) else repr(msg)
                    delayed_now = kind == 'make' and op['kw'].get('delay_condition') == 'True'
                    o['delayed'] = delayed_now
                    if kind == 'make':
                        made.append([obj, rep_name, None, delayed_now, op])
                    # ---- what the model expects for the message (from the constructing op's keywords)
                    mk = op if kind == 'make' else mop
                    mkw = mk.get('kw', {})
                    # the fields as the caller gave them (not as pedal merged them): fields= dictionary, the class's
                    # constants over it, keyword fields over both; a declared field name that was not given is None
                    exp_fields = None
                    if kind == 'make':
                        given = kw.get('fields')
                        exp_fields = dict(given_fields_copy) if given_fields_copy is not None else {}
                        cf = type(obj).constant_fields
                        if isinstance(cf, dict):
                            exp_fields.update(cf)
                        for fname in (kw.get('field_names') or []):
                            if fname not in kw and fname not in exp_fields:
                                exp_fields[fname] = None
                        for fname in ('value', 'who', 'where', 'hint'):
                            if fname in kw:
                                exp_fields[fname] = kw[fname]
                        obj._verif_exp_fields = exp_fields
                    else:
                        exp_fields = getattr(obj, '_verif_exp_fields', None)
                    if exp_fields is None:
                        exp_fields = obj.fields
                    try:
                        if isinstance(obj, ns['msg_fb']):
                            exp = 'dynamic ' + str(exp_fields.get('value'))
                        elif 'message' in mkw:
                            exp = eval(mkw['message'])
                        elif mk.get('pos') and mk['cls'] == 'log':
                            exp = ' '.join(eval(x) for x in mk['pos'])
                        elif mk.get('pos') and mk['cls'] == 'debug':
                            exp = eval(mk['pos'][-1])             # the object looked at is the one recorded last
                        elif mk.get('pos') and mk['cls'] in ('gently', 'explain', 'compliment', 'guidance'):
                            exp = eval(mk['pos'][0])
                        elif type(obj).message is not None:
                            exp = type(obj).message
                        elif obj.message_template is not None:
                            exp = model_render(obj.message_template, exp_fields, rep.format)
                        else:
                            exp = obj.DEFAULT_FEEDBACK_MESSAGE
                        o['model_message'] = exp
                    except BaseException as e:   # rendering in the model failed (e.g. missing field): pedal must fail too
                        o['model_message_error'] = type(e).__name__
                    # which of the texts pedal evaluates for this object fail in the model: the message (used when the
                    # condition held), the else message and the justification (met / unmet variant)
                    def _fails(tpl):
                        if not isinstance(tpl, str):
                            return None
                        try:
                            model_render(tpl, exp_fields, rep.format)
                        except BaseException as e:
                            return type(e).__name__
                        return None
                    errs = {'message': o.get('model_message_error'), 'else': None, 'just_met': None, 'just_unmet': None}
                    if 'else_message' not in mkw and type(obj).else_message is None:
                        errs['else'] = _fails(obj.else_message_template)
                    if 'justification' not in mkw and type(obj).justification is None:
                        jt0 = type(obj).justification_template
                        if isinstance(jt0, str):
                            errs['just_met'] = errs['just_unmet'] = _fails(jt0)
                        elif isinstance(jt0, (tuple, list)) and len(jt0) == 2:
                            errs['just_met'], errs['just_unmet'] = _fails(jt0[0]), _fails(jt0[1])
                    o['model_errs'] = errs
                    # would ANY template of this object fail to render from these fields with this formatter?
                    tpls = [obj.message_template, obj.else_message_template]
                    jt = type(obj).justification_template
                    tpls += list(jt) if isinstance(jt, (tuple, list)) else [jt]
                    for t in tpls:
                        if isinstance(t, str):
                            try:
                                model_render(t, exp_fields, rep.format)
                            except BaseException as e:
                                o['model_template_error'] = type(e).__name__
                else:
                    o['no_object'] = True
            elif kind == 'override':
                cls = ns[op['cls']]
                attrs = {k: eval(v) for k, v in op['attrs'].items()}
                try:
                    cls.override(**attrs)
                    o['raised'] = None
                except BaseException as e:  # noqa
                    o['raised'] = {'cls': type(e).__name__, 'str': safe_str(e)[:80]}
            elif kind == 'clear':
                reports[op['report']].clear()
                if op['report'] == 'main':
                    group[0] = None
                made[:] = [m for m in made if m[1] != op['report']]
                if op['report'] == 'second':
                    world.install_seeded_sets(second, 7)
                else:
                    world.install_seeded_sets(MAIN_REPORT, spec['meta'].get('seed', 1) & 0xffff)
            elif kind == 'recontext':
                core.contextualize_report('x = 1\n')
                group[0] = None
                made[:] = [m for m in made if m[1] != 'main']
                world.install_seeded_sets(MAIN_REPORT, spec['meta'].get('seed', 1) & 0xffff)
            elif kind == 'set_formatter':
                reports[op['report']].set_formatter(ns[op['formatter']](reports[op['report']]))
            # ---- global bookkeeping after every op
            cur = class_state()
            o['class_diff'] = [(n, a) for n in cur for (a, v, own), (a2, v2, own2) in zip(cur[n], import_state[n])
                               if (v, own) != (v2, own2)]
            o['sizes'] = {k: (len(rp.feedback), len(rp.ignored_feedback)) for k, rp in reports.items()}
            dup = 0
            for rp in reports.values():
                ids = [id(x) for x in rp.feedback + rp.ignored_feedback]
                dup += len(ids) - len(set(ids))
            o['duplicates'] = dup
            o['overridden_registered'] = len(MAIN_REPORT.overridden_feedbacks)
            obs.append(o)
    finally:
        MONITOR.end()
    return {'obs': obs, 'digest': MONITOR.digest()}


def run_spec(spec):
    return judge(spec, world.fork_run(execute, spec, timeout=60))


# --------------------------------------------------------------------------- oracle

TRUTHY = {'True': True, 'False': False, 'None': False, '0': False, '1': True, '5': True, "''": False, "'yes'": True, '[]': False,
          '[0]': True, '{}': False, '0.0': False, '-1': True}


def judge(spec, res):
    vs = []
    overridden = set()
    for op, o in zip(spec['ops'], res['obs']):
        kind = op['op']

        def viol(inv, detail, extra=''):
            vs.append({'sig': 'C20/%s%s' % (inv, extra), 'detail': 'op %d (%s %s): %s' % (o['index'], kind, op.get('cls', ''), detail)})
        if o.get('skipped'):
            continue
        if kind == 'make' or kind == 'handle':
            fired = o.get('fired') or []
            in_callback = bool(fired) and fired[0]['func'] in CALLBACKS
            if fired and not in_callback:
                # fault landed outside the callbacks the property names (class body, group callback): only exactly-once
                if o.get('duplicates'):
                    viol('recorded-more-than-once', 'a feedback object appears %d extra time(s) in the report lists' % o['duplicates'])
                    return vs
                continue
            delayed = o.get('delayed')
            if kind == 'make':
                cls = op['cls']
                if 'outcome' in op:
                    want = TRUTHY[op['outcome']]
                else:
                    want = op['kw'].get('activate', 'True') == 'True'
                parent = op['kw'].get('parent')
                ctx = '/%s%s' % ('subclass-condition' if 'outcome' in op else 'activate', '/parent=%s' % (
                    'group' if parent == '@group' else ('int-or-str' if parent else 'none')))
            else:
                want = None
                ctx = '/delayed-condition'
            if o.get('no_object'):
                if o.get('raised') and not fired:
                    # the constructor refused its arguments before anything was evaluated (not generated on purpose)
                    viol('constructor-raised', 'raised %s(%s) and recorded nothing' % (o['raised']['cls'], o['raised']['str']), ctx)
                    return vs
                if fired:
                    viol('not-recorded-after-callback-error', 'callback raised %s but no object was recorded' % fired[0]['exc'], ctx)
                    return vs
                continue
            total = o['in_triggered'] + o['in_untriggered'] + o['in_other_report']
            if delayed and not o.get('raised'):
                if total != 0 or o['bool']:
                    viol('delayed-feedback-recorded-early', 'delay_condition=True but recorded %d times, bool=%s' % (total, o['bool']), ctx)
                    return vs
                continue
            if o.get('duplicates') or total != 1:
                viol('not-recorded-exactly-once', 'object appears %d time(s) (triggered %d, untriggered %d, other report %d)' % (
                    total, o['in_triggered'], o['in_untriggered'], o['in_other_report']), ctx)
                return vs
            if 'group_told' in o and not fired:
                # the parent group hears about its child exactly once, with the child's actual outcome
                triggered_now = bool(o['in_triggered'])
                if o['group_told'] != [triggered_now]:
                    viol('group-parent-misinformed', 'child is %s but its group parent was told %s' % (
                        'triggered' if triggered_now else 'untriggered', o['group_told']), ctx)
                    return vs
            if fired:
                silent = (want is False or want is None and kind == 'handle') and fired[0]['func'] != 'condition'
                if kind == 'handle':
                    silent = fired[0]['func'] != 'condition'      # outcome unknown here: be conservative
                if silent:
                    continue
                # condition (or the used message) raised: untriggered, error status, exception reaches the caller
                if o['in_untriggered'] != 1 or o['bool']:
                    viol('errored-feedback-counted-as-triggered', 'callback %s raised %s; triggered=%d bool=%s' % (
                        fired[0]['func'], fired[0]['exc'], o['in_triggered'], o['bool']), ctx)
                elif o['status'] != 'error':
                    viol('errored-feedback-status', 'status is %r' % o['status'], ctx)
                elif not o.get('raised'):
                    viol('callback-exception-swallowed', 'callback %s raised %s but the call returned normally' % (fired[0]['func'], fired[0]['exc']), ctx)
                elif not o.get('same_exception'):
                    viol('callback-exception-replaced', 'caller saw %s' % o['raised']['cls'], ctx)
                if vs:
                    return vs
                continue
            errs = o.get('model_errs') or {}
            if want is True:
                due = errs.get('just_met') or errs.get('message')
            elif want is False:
                # the message an untriggered feedback does NOT deliver is evaluated for reference only: its failure is
                # nobody's error
                due = errs.get('just_unmet') or errs.get('else')
            else:
                due = o.get('model_message_error') or o.get('model_template_error')
            if o.get('raised'):
                if due and o['status'] == 'error' \
                        and o['in_untriggered'] == 1 and not o['bool'] and o.get('same_exception'):
                    continue      # the text cannot be rendered from the given fields: reported as an error, as stated
                viol('creation-raised', 'no callback failed, yet %s(%s) reached the caller (recorded: triggered %d / untriggered %d, status %s)' % (
                    o['raised']['cls'], o['raised']['str'], o['in_triggered'], o['in_untriggered'], o['status']), ctx + '/as=%s' % o['raised']['cls'])
                return vs
            if want is not None and due and kind == 'make' and not delayed:
                viol('rendering-error-swallowed', 'the %s cannot be rendered from the fields (%s in the model) but the call returned normally, status %s' % (
                    'message/justification' if want else 'else message/justification', due, o['status']), ctx)
                return vs
            if want is not None:
                if bool(o['in_triggered']) != want or o['bool'] != want:
                    viol('wrong-list-or-truth-value', 'condition outcome %s: triggered=%d untriggered=%d bool=%s' % (
                        op.get('outcome', op['kw'].get('activate')), o['in_triggered'], o['in_untriggered'], o['bool']), ctx)
                    return vs
                if o['status'] != ('active' if want else 'inactive'):
                    viol('wrong-status', 'status %r for outcome %s' % (o['status'], want), ctx)
                    return vs
            if (want or (want is None and o['in_triggered'])) and 'model_message' in o and o['model_message'] is not None:
                if o['message'] != o['model_message']:
                    viol('message-differs-from-fields', 'delivered %r, model %r' % (o['message'], o['model_message']), ctx)
                    return vs
        elif kind == 'override':
            if o.get('raised'):
                viol('override-raised', '%s(%s)' % (o['raised']['cls'], o['raised']['str']))
                return vs
            overridden.add(op['cls'])
        elif kind in ('clear', 'recontext'):
            if kind == 'recontext' or op['report'] == 'main':
                if o['class_diff']:
                    viol('class-attribute-not-restored', 'after %s: %s' % (kind, o['class_diff'][:4]),
                         '/%s' % ('own-vs-inherited' if False else 'value'))
                    return vs
                if o['sizes']['main'] != (0, 0) and kind == 'clear':
                    viol('clear-left-feedback', 'sizes %s' % (o['sizes'],))
                    return vs
                overridden.clear()
        if o.get('duplicates'):
            viol('recorded-more-than-once', 'a feedback object appears %d extra time(s) in the report lists' % o['duplicates'])
            return vs
        shared = [(n, a) for (n, a) in o.get('class_diff', []) if a in ('constant_fields', 'fields')]
        if shared:
            # nothing an instance does may write into its CLASS's field tables (override() does not touch them here)
            viol('instance-wrote-into-class-level-fields', 'after op %d: %s changed' % (o['index'], shared[:3]))
            return vs
    return vs


def run_task(task):
    out = {'runs': 0, 'violations': [], 'counters': {}, 'sets': {'distinct_nontrivial': [], 'digests': []},
           'samples': [], 'harness': [], 'virtual_s': 0.0}
    cnt = out['counters']

    def bump(name, n=1):
        cnt[name] = cnt.get(name, 0) + n

    for sd in task['seeds']:
        spec = build(sd, task['tier'])
        res = world.fork_run(execute, spec, timeout=60)
        out['runs'] += 1
        out['sets']['digests'].append(res['digest'])
        for v in judge(spec, res):
            v['spec'] = spec
            out['violations'].append(v)
        nm = 0
        for op, o in zip(spec['ops'], res['obs']):
            bump('op:%s' % op['op'])
            if op['op'] == 'make':
                nm += 1
                bump('class:%s' % op['cls'])
            for f in o.get('fired') or []:
                bump('fault_fired:callback_%s' % (f['func'] if f['func'] in CALLBACKS else 'other'))
                if f['func'] != 'condition' and f['func'] in CALLBACKS:
                    bump('probe:fault_in_message_or_formatter_or_field_str')
            if o.get('class_diff') and op['op'] not in ('clear', 'recontext'):
                bump('probe:class_attributes_overridden_at_some_point')
            if o.get('delayed'):
                bump('probe:delayed_condition')
        if nm >= 3:
            out['sets']['distinct_nontrivial'].append(res['digest'])
        if not out['samples'] and nm >= 3:
            out['samples'].append({'ops': spec['ops'][:10], 'observed': [
                {k: o.get(k) for k in ('op', 'raised', 'in_triggered', 'in_untriggered', 'bool', 'status', 'message', 'sizes')}
                for o in res['obs'][:10]]})
    return out


def shrink_moves(spec):
    import copy
    ops = spec['ops']
    for i in reversed(range(len(ops))):
        if len(ops) > 1:
            c = copy.deepcopy(spec)
            del c['ops'][i]
            yield c
    for i, op in enumerate(ops):
        if op['op'] == 'make':
            for k in list(op['kw']):
                c = copy.deepcopy(spec)
                del c['ops'][i]['kw'][k]
                yield c


def evidence_extra(agg):
    return {'fault_kinds_fired': {k.split(':', 1)[1]: v for k, v in agg.counters.items() if k.startswith('fault_fired:')},
            'distinct_event_log_digests': len(agg.sets.get('digests', ()))}


def probe_warnings(agg):
    return ['%s never hit' % p for p in ('probe:fault_in_message_or_formatter_or_field_str', 'probe:delayed_condition',
                                         'fault_fired:callback_condition') if agg.counters.get(p, 0) == 0]
