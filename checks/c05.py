"""C05 -- whatever the sandbox patches is restored after every execution, however it ends.

Two workloads on engine ``sbx`` (plus the timed-out executions judged in c14's T4 clause):
  enum     for one program: every student crash point k x the BaseException family
           (+ SystemExit, + a rotating sample of ordinary classes), and -- when the program
           fails by itself -- every pedal LINE event inside the recorder
           (Sandbox._capture_exception's dynamic extent) x {Exception, SystemExit,
           KeyboardInterrupt}: "pedal itself failed while recording the failure";
  history  seeded histories of 2-8 executions in one sandbox, ~35 % of them faulted with any
           class of the catalogue, the invariant checked after EVERY op so that a leak is
           attributed to the op that caused it and its effect on the next op is seen.
Invariant after each op, whether it returned or raised: sys.stdout, time.sleep, the trace
function and every pre-existing sys.modules entry are the identical objects as before
the op, no mock/override entry survives in sys.modules, and the sandbox's patch and
stdout stacks are empty.
"""
import os
import sys

sys.path.insert(0, os.path.dirname(os.path.dirname(os.path.abspath(__file__))))

from sim import faults, histories, progs, sbx, seeds, world  # noqa: E402
from sim.shrinkers import sbx_moves  # noqa: E402
import c04  # noqa: E402

ID = 'C05'
LEVEL = 'fault_enumeration'
BUDGET = {'quick': 75, 'thorough': 780}
RULE = ('workload: seeded CS1-grammar programs, special termination programs and op histories (input generation); '
        'decided by: fault enumeration -- every student LINE event x {KeyboardInterrupt, GeneratorExit, user BaseException, '
        'SystemExit, rotating ordinary classes}, every pedal LINE event inside the exception recorder x 3 classes, plus '
        'seeded faulted histories; process-global state snapshot-compared after every op; '
        'distinct_nontrivial = distinct (program digest, entry, tracer, fault kind, k, class) whose fault fired, plus '
        'distinct faulted history digests')
ASSUMPTIONS = [
    'the monitored state is exactly what the property names: sys.stdout, sys.modules contents, time.sleep, sys.gettrace()/threading.gettrace(), '
    'and the sandbox patch/stdout stacks',
    'new sys.modules keys are tolerated only when they are ordinary modules imported lazily (patch.dict restores all-or-nothing, so a leaked patch '
    'always shows as a replaced, missing or mock entry)',
    'synchronous faults are not injected into pedal\'s own setup/cleanup frames (_start_mocking/_stop_mocking): the property does not promise that a '
    'cleanup routine which is itself killed still cleans up; only asynchronous exceptions land there (C14)',
    'crash points are LINE-event boundaries',
]
COMPONENTS = c04.COMPONENTS

RECORD_CLASSES = ['ValueError', 'SystemExit', 'KeyboardInterrupt']


def tasks(base_seed, tier):
    out = []
    n_enum = 70 if tier == 'quick' else 900
    n_hist = 2500 if tier == 'quick' else 60000
    tracers = c04.TRACERS_THOROUGH       # all four styles, also in the quick tier
    for name in sorted(progs.SPECIAL):
        for tr in tracers:
            # (unbounded recursion under every style too: a Python-level tracer at the recursion limit fails itself and
            # CPython then uninstalls it, so 'restore only if still installed' shortcuts are wrong exactly there)
            out.append({'id': 'special:%s:%s' % (name, tr), 'kind': 'special', 'name': name, 'tracer': tr, 'tier': tier})
    for i in range(n_enum):
        out.append({'id': 'enum:%d' % i, 'kind': 'enum', 'seed': seeds.run_seed(base_seed, i), 'tier': tier})
    chunk = 25
    for i in range(0, n_hist, chunk):
        out.append({'id': 'hist:%d' % i, 'kind': 'hist', 'seeds': [seeds.run_seed(base_seed ^ 0x5eed, j) for j in range(i, min(n_hist, i + chunk))],
                    'tier': tier})
    return out


def determinism_sample(tasks_):
    return [t for t in tasks_ if t['kind'] == 'enum'][:6] + [t for t in tasks_ if t['kind'] == 'hist'][:3] \
        + [t for t in tasks_ if t['kind'] == 'special'][:6]


def build_history(seed, tier):
    st = seeds.streams(seed)
    rc = st[seeds.CONFIG]
    h = histories.gen_history(st, n_ops=rc.randint(2, 8), fault_rate=0.35, threaded_rate=0.15, nested_calls=True, extra_file=rc.random() < 0.3)
    tracers = c04.TRACERS_THOROUGH
    tracer = rc.choice(tracers)
    cfg = {'tracer': tracer, 'ref': True, 'ambient_trace': rc.random() < 0.3, 'allow_print': rc.random() < 0.15}
    if rc.random() < 0.12:
        cfg['sandbox_threaded'] = True       # sandbox-wide threaded mode: nested student imports get threads of their own
    if rc.random() < 0.15:
        # modules the instructor forbids (incl. ones pedal itself patches attributes of)
        cfg['block_modules'] = rc.sample(['time', 'sys', 'math', 'random', 'json', 'os'], rc.randint(1, 2))
    return {'files': h['files'], 'ops': h['ops'], 'config': cfg,
            'meta': {'entry': 'history', 'tracer': tracer, 'seed': seed}}


def execute(spec):
    return sbx.execute(c04.materialise(spec))


def run_spec(spec):
    res = world.fork_run(execute, spec, timeout=60)
    return judge(spec, res)


def termination_of(op, o):
    f = op.get('fault')
    if f and o.get('fired'):
        fam = faults.family(f['exc'])
        if f['kind'] == 'sync_record':
            return 'record-fault:%s' % fam
        if o.get('ref') is not None and o['ref']['fired'] and o['ref']['outcome'] is None:
            return 'swallowed:%s' % fam
        if o.get('ref') is not None and not o['ref']['fired']:
            return 'record-phase-student:%s' % fam
        return fam
    if o.get('sb_exc') is not None:
        c = o['sb_exc']
        if 'SystemExit' in c['mro']:
            return 'natural:SystemExit'
        return 'natural:Exception'
    if o.get('escaped') is not None:
        return 'natural:escaped:%s' % o['escaped']['cls']
    return 'normal'


def judge(spec, res):
    vs = []
    meta = spec.get('meta', {})
    special = meta.get('special')
    for op, o in zip(spec['ops'], res['obs']):
        if op['op'] not in sbx.EXEC_OPS:
            continue
        term = 'special:%s' % special if special else termination_of(op, o)
        entry = op['op'] + ('/code' if op.get('code') else '') + ('/threaded' if op.get('threaded') else '')
        outcome = 'raised' if o['escaped'] is not None else 'returned'
        for p in o['global_problems']:
            kind = p.split(':', 1)[0]
            vs.append({'sig': 'C05/%s/%s/%s/%s' % (kind, entry, term, outcome),
                       'detail': 'after op %d (%s): %s' % (o['index'], entry, ', '.join(o['global_problems'][:4]))})
        if tuple(o['stacks']) != (0, 0):
            vs.append({'sig': 'C05/stacks-not-empty/%s/%s/%s' % (entry, term, outcome),
                       'detail': 'after op %d: len(_current_patches)=%d len(_current_stdout)=%d' % (
                           o['index'], o['stacks'][0], o['stacks'][1])})
        if vs:
            break      # later ops run in a polluted process: attribute the leak to the op that caused it
    # de-duplicate (one leak shows as several module entries)
    seen = set()
    out = []
    for v in vs:
        if v['sig'] not in seen:
            seen.add(v['sig'])
            out.append(v)
    return out


def run_task(task):
    out = {'runs': 0, 'violations': [], 'counters': {}, 'sets': {'distinct_nontrivial': [], 'digests': [], 'sites': []},
           'samples': [], 'harness': [], 'virtual_s': 0.0}
    cnt = out['counters']

    def bump(name, n=1):
        cnt[name] = cnt.get(name, 0) + n

    def one(spec):
        res = world.fork_run(execute, spec, timeout=60)
        out['runs'] += 1
        out['virtual_s'] += res.get('virtual_s', 0.0)
        out['sets']['digests'].append(res['digest'])
        for v in judge(spec, res):
            v['spec'] = spec
            out['violations'].append(v)
        for o in res['obs']:
            bump('ops_checked')
            bump('tolerated_lazy_module_keys', len(o.get('tolerated_modules', ())))
            if o.get('escaped') is not None:
                bump('ops_that_raised')
        return res

    if task['kind'] == 'special':
        sp = progs.special_program(task['name'])
        spec = {'files': sp['files'], 'config': {'tracer': task['tracer'], 'ref': False, 'ambient_trace': task['tracer'] != 'none'},
                'ops': [{'op': 'run', 'noref': True}, {'op': 'run', 'code': "print('after')", 'noref': True}],
                'meta': {'entry': 'run', 'special': task['name'], 'tracer': task['tracer']}}
        res = one(spec)
        bump('special_runs')
        out['sets']['distinct_nontrivial'].append('special:%s:%s' % (task['name'], task['tracer']))
        return out

    if task['kind'] == 'hist':
        for sd in task['seeds']:
            spec = build_history(sd, task['tier'])
            res = one(spec)
            nf = 0
            for op, o in zip(spec['ops'], res['obs']):
                if o.get('fired'):
                    nf += 1
                    f = o['fired'][0]
                    bump('fault_fired:%s' % f['kind'])
                    bump('fault_class:%s' % faults.family(f['exc']))
                    if f['kind'] == 'sync_record':
                        out['sets']['sites'].append('%s:%s:%d' % (f['file'], f['func'], f['line']))
            if nf:
                out['sets']['distinct_nontrivial'].append('hist:' + res['digest'])
                bump('histories_with_fault')
            bump('histories')
            if len(out['samples']) < 1 and nf:
                out['samples'].append({'history_ops': spec['ops'], 'tracer': spec['meta']['tracer'],
                                       'per_op': [{'op': o['op'], 'fired': o.get('fired'), 'raised': o.get('escaped') and o['escaped']['cls'],
                                                   'global_problems': o.get('global_problems'), 'stacks': o.get('stacks')}
                                                  for o in res['obs']]})
        return out

    # ---- enum
    base = c04.build_program_task({'seed': task['seed'], 'tier': task['tier']})
    base['meta'] = dict(base['meta'])
    if task['seed'] % 3 == 0:
        base['config'] = dict(base['config'], ambient_trace=True)
    # a second op after the faulted one shows the effect of a leak on the NEXT execution
    res = one(base)
    o = res['obs'][-1]
    N = o['nS']
    cap = 25 if task['tier'] == 'quick' else 80
    pd = c04.prog_digest(base)
    meta = base['meta']
    for k in range(1, min(N, cap) + 1):
        classes = list(faults.BASE) + ['SystemExit']
        rot = faults.ORDINARY + faults.BROKEN
        classes.append(rot[k % len(rot)])
        for exc in classes:
            spec = c04.with_fault(base, k, exc)
            r = one(spec)
            fo = r['obs'][-1]
            if fo['fired']:
                bump('fault_fired:sync_student')
                bump('fault_class:%s' % faults.family(exc))
                out['sets']['distinct_nontrivial'].append('%s:%s:%s:S:%d:%s' % (pd, meta['entry'], meta['tracer'], k, exc))
    # recorder faults need an op that fails by itself
    if o['sb_exc'] is not None and o['escaped'] is None:
        probe = c04.with_fault(base, 1, 'ValueError')
        probe['ops'][-1]['fault'] = {'kind': 'sync_record', 'k': 10 ** 9, 'exc': 'ValueError'}
        r = one(probe)
        nrec = r['obs'][-1].get('fault_matches', 0)
        bump('recorder_events_total', nrec)
        stride = 1 if task['tier'] == 'thorough' else max(1, nrec // 40)
        for k in range(1, nrec + 1, stride):
            for exc in RECORD_CLASSES:
                spec = c04.with_fault(base, 1, exc)
                spec['ops'][-1]['fault'] = {'kind': 'sync_record', 'k': k, 'exc': exc}
                r = one(spec)
                fo = r['obs'][-1]
                if fo['fired']:
                    f = fo['fired'][0]
                    bump('fault_fired:sync_record')
                    bump('fault_class:%s' % faults.family(exc))
                    out['sets']['sites'].append('%s:%s:%d' % (f['file'], f['func'], f['line']))
                    out['sets']['distinct_nontrivial'].append('%s:%s:%s:R:%d:%s' % (pd, meta['entry'], meta['tracer'], k, exc))
                    if fo['escaped'] is not None:
                        bump('probe:recorder_fault_made_the_op_raise')
    bump('enum_programs')
    if not out['samples']:
        out['samples'].append({'program': progs.source(base['files']['answer.py']), 'entry': meta['entry'], 'tracer': meta['tracer'],
                               'student_line_events': N, 'natural_failure': o['sb_exc'] and o['sb_exc']['cls']})
    return out


def shrink_moves(spec):
    return sbx_moves(spec)


def evidence_extra(agg):
    return {'fault_kinds_fired': {k.split(':', 1)[1]: v for k, v in agg.counters.items() if k.startswith('fault_fired:')},
            'distinct_recorder_fault_sites': len(agg.sets.get('sites', ())),
            'distinct_event_log_digests': len(agg.sets.get('digests', ()))}


def probe_warnings(agg):
    return ['%s never hit' % p for p in ('probe:recorder_fault_made_the_op_raise', 'fault_fired:sync_record')
            if agg.counters.get(p, 0) == 0]
