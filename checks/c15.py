"""C15 -- captured output and mocked input exactly record what student code did, in order.

Histories of run / run(code) / call / evaluate / clear_output / set_input / queue_input /
clear_input in ONE sandbox (1-12 ops), some executions crashed mid-script by an injected
fault.  The executable reference model is ~40 lines: it is fed by the I/O event log of
the plain-CPython reference executor (same inputs, same injected fault), never by
pedal's own record, and is compared with get_raw_output / get_output / get_input /
every execution's own context after EVERY op.
"""
import os
import sys

sys.path.insert(0, os.path.dirname(os.path.dirname(os.path.abspath(__file__))))

from sim import faults, histories, progs, sbx, seeds, world  # noqa: E402
from sim.shrinkers import sbx_moves  # noqa: E402
import c04  # noqa: E402

ID = 'C15'
LEVEL = 'exploration'
BUDGET = {'quick': 75, 'thorough': 780}
RULE = ('seeded op histories (1-12 ops) over one sandbox with ~30 % of executions crashed mid-script by an injected fault '
        '(sys.monitoring, Exception family + SystemExit), checked op by op against an I/O-log reference model fed by a '
        'plain-CPython reference execution; distinct_nontrivial = distinct event-log digests of histories that contain at least '
        'two executions and at least one output or input event')
ASSUMPTIONS = [
    'the model is the property statement: raw = concatenation of per-execution text; line view = per printing execution, text.rstrip().split("\\n") '
    'right-stripped; input FIFO with default "0" once empty; each input(p) contributes p + newline to the captured text',
    'executions whose call itself raised (a C04 matter) or that ended by a non-Exception BaseException are not judged here',
    'text written by student __str__/__repr__ while pedal formats the failure (after capture stopped) is outside the model',
]
COMPONENTS = c04.COMPONENTS
FAULT_CLASSES = faults.ORDINARY + faults.EXITS + ['BadStrError']


def tasks(base_seed, tier):
    n = 9000 if tier == 'quick' else 250000
    chunk = 40
    return [{'id': 'hist:%d' % i, 'tier': tier,
             'seeds': [seeds.run_seed(base_seed ^ 0xC15, j) for j in range(i, min(n, i + chunk))]}
            for i in range(0, n, chunk)]


def determinism_sample(tasks_):
    return tasks_[:4]


def build(seed, tier):
    st = seeds.streams(seed)
    rc = st[seeds.CONFIG]
    h = histories.gen_history(st, n_ops=rc.randint(1, 12), fault_rate=0.3, fault_classes=FAULT_CLASSES,
                              threaded_rate=0.1, size=rc.randint(0, 4), exotic_args=False, before_after=True, extra_file=rc.random() < 0.3)
    tracer = rc.choice(['none', 'none', 'native', 'calls'])
    cfg = {'tracer': tracer, 'ref': True, 'allow_print': rc.random() < 0.15}
    if rc.random() < 0.1:
        cfg['sandbox_threaded'] = True       # sandbox-wide threaded mode: nested student imports get threads of their own
    return {'files': h['files'], 'ops': h['ops'], 'config': cfg,
            'meta': {'tracer': tracer, 'seed': seed}}


def execute(spec):
    return sbx.execute(c04.materialise(spec))


def run_spec(spec):
    return judge(spec, world.fork_run(execute, spec, timeout=60))


# --------------------------------------------------------------------------- the reference model

class Model:
    def __init__(self):
        self.raw = ''
        self.lines = []
        self.contexts = []

    def execution(self, events):
        text = ''
        consumed = []
        for e in events:
            if e[0] == 'out':
                text += e[1]
            else:
                text += str(e[1]) + '\n'
                consumed.append(e[2])
        self.raw += text
        if text:
            self.lines += [ln.rstrip() for ln in text.rstrip().split('\n')]
        self.contexts.append((text, consumed))
        return text, consumed

    def clear_output(self):
        self.raw = ''
        self.lines = []


def judge(spec, res):
    vs = []
    m = Model()
    prev_exec = None
    for op, o in zip(spec['ops'], res['obs']):
        kind = op['op']

        def viol(inv, detail, o=o, kind=kind):
            ctx = kind + ('/code' if op.get('code') else '')
            after = prev_exec or 'first'
            vs.append({'sig': 'C15/%s/%s/after=%s' % (inv, ctx, after),
                       'detail': 'op %d (%s): %s' % (o['index'], kind, detail)})
        if kind in sbx.EXEC_OPS:
            ref = o.get('ref')
            if ref is None and o.get('skipped') == 'no-such-function':
                if o['new_contexts']:
                    viol('context-for-nonexistent-function', 'call of a missing function recorded an execution')
                prev_exec = prev_exec
                continue
            if ref is None:
                return vs
            if o.get('escaped') is not None:
                return vs        # precondition failed (C04/C05 territory): discard the rest of the history
            ro = ref['outcome']
            if ro is not None and 'Exception' not in ro['mro'] and 'SystemExit' not in ro['mro']:
                return vs
            if o.get('ref_multi'):
                # run(before=, after=): every piece is an execution of its own, in order
                subs = o['ref_multi']
                if len(o['new_contexts']) != len(subs):
                    viol('execution-count', 'run(before/after) made %d execution records, expected %d' % (len(o['new_contexts']), len(subs)))
                    return vs
                for sub, c in zip(subs, o['new_contexts']):
                    t_, cons_ = m.execution(sub['events'])
                    if c['output'] != t_:
                        viol('context-output', 'own record %r, that piece wrote %r' % (c['output'][-60:], t_[-60:]))
                    if c['inputs'] != cons_:
                        viol('context-inputs', 'own record %r, input() returned %r' % (c['inputs'], cons_))
                text = ''.join(''.join(e[1] for e in sub['events'] if e[0] == 'out') for sub in subs)
                if o['raw_output'] != m.raw:
                    viol('raw-output', 'get_raw_output() %r, model %r' % (o['raw_output'][-70:], m.raw[-70:]))
                if o['output'] != m.lines:
                    viol('line-view', 'get_output() tail %r, model tail %r' % (o['output'][-4:], m.lines[-4:]))
                if vs:
                    return vs
                prev_exec = 'printing' if text.strip() else ('blank-only' if text else 'silent')
                continue
            text, consumed = m.execution(ref['events'])
            if not o['new_contexts']:
                viol('no-context-recorded', 'execution left no context')
            else:
                c = o['new_contexts'][-1]
                if c['output'] != text:
                    # HOW a prompt is echoed is not part of the property: with or without a newline after it.  If the
                    # record differs from the model only in that, the model adopts the record's text for this execution
                    # (all views must then still agree on it).
                    import c06
                    pat = c06.text_pattern([e if e[0] == 'out' else ('in', str(e[1]), e[2]) for e in ref['events']])
                    strict = ''.join(__import__('re').escape(e[1]) if e[0] == 'out' else __import__('re').escape(str(e[1])) + '\n?'
                                     for e in ref['events'])
                    if __import__('re').fullmatch(strict, c['output'], __import__('re').S) and any(e[0] == 'in' for e in ref['events']):
                        m.raw = m.raw[:len(m.raw) - len(text)] + c['output']
                        if text:
                            del m.lines[len(m.lines) - len(text.rstrip().split('\n')):]
                        if c['output']:
                            m.lines += [ln.rstrip() for ln in c['output'].rstrip().split('\n')]
                        m.contexts[-1] = (c['output'], consumed)
                        text = c['output']
                    else:
                        viol('context-output', 'own record %r, student wrote %r' % (c['output'][-60:], text[-60:]))
                if c['inputs'] != consumed:
                    viol('context-inputs', 'own record %r, input() returned %r' % (c['inputs'], consumed))
            silent = 'silent' if not text else ('blank-only' if not text.strip() else 'printing')
            this_exec = silent
        else:
            if kind == 'clear_output':
                m.clear_output()
            this_exec = prev_exec
        if o['raw_output'] != m.raw:
            viol('raw-output', 'get_raw_output() %r, model %r' % (o['raw_output'][-70:], m.raw[-70:]))
        if o['output'] != m.lines:
            viol('line-view', 'get_output() tail %r, model tail %r (len %d vs %d)' % (
                o['output'][-4:], m.lines[-4:], len(o['output']), len(m.lines)))
        if 'ref_queue' in o and o['inputs'] != o['ref_queue']:
            viol('input-queue', 'get_input() %r, FIFO model %r' % (o['inputs'], o['ref_queue']))
        if vs:
            return vs
        prev_exec = this_exec
    return vs


def run_task(task):
    out = {'runs': 0, 'violations': [], 'counters': {}, 'sets': {'distinct_nontrivial': [], 'digests': []},
           'samples': [], 'harness': [], 'virtual_s': 0.0}
    cnt = out['counters']

    def bump(name, n=1):
        cnt[name] = cnt.get(name, 0) + n

    for sd in task['seeds']:
        spec = build(sd, task['tier'])
        res = world.fork_run(execute, spec, timeout=60)
        out['runs'] += 1
        out['sets']['digests'].append(res['digest'])
        for v in judge(spec, res):
            v['spec'] = spec
            out['violations'].append(v)
        n_exec = n_io = 0
        for op, o in zip(spec['ops'], res['obs']):
            bump('op:%s' % op['op'])
            if op['op'] in sbx.EXEC_OPS:
                n_exec += 1
                ref = o.get('ref') or {}
                n_io += len(ref.get('events', ()))
                if o.get('fired'):
                    bump('fault_fired:%s' % o['fired'][0]['kind'])
                    if ref.get('text'):
                        bump('probe:crash_after_partial_output')
                if ref.get('consumed') and not o.get('ref_queue'):
                    bump('probe:reads_drained_queue')
                if ref.get('events') == [] and op['op'] != 'run':
                    bump('probe:silent_call_or_eval')
                if o.get('escaped') is not None:
                    bump('discarded:op_raised')
                if op.get('threaded'):
                    bump('threaded_ops')
        if n_exec >= 2 and n_io >= 1:
            out['sets']['distinct_nontrivial'].append(res['digest'])
        if not out['samples'] and n_exec >= 3:
            out['samples'].append({'ops': spec['ops'], 'raw_output_at_end': res['obs'][-1]['raw_output'][-200:],
                                   'line_view_at_end': res['obs'][-1]['output'][-8:],
                                   'queue_at_end': res['obs'][-1]['inputs']})
    return out


def shrink_moves(spec):
    return sbx_moves(spec)


def evidence_extra(agg):
    return {'fault_kinds_fired': {k.split(':', 1)[1]: v for k, v in agg.counters.items() if k.startswith('fault_fired:')},
            'distinct_event_log_digests': len(agg.sets.get('digests', ()))}


def probe_warnings(agg):
    return ['%s never hit' % p for p in ('probe:crash_after_partial_output', 'probe:reads_drained_queue', 'probe:silent_call_or_eval')
            if agg.counters.get(p, 0) == 0]
