"""C13 -- grading a submission is independent of what the process graded before it.

Engine ``grd``: histories of 2-10 whole gradings (Bundle.run_ics_bundle through the
standard / blockpy / terminal / gradescope environment) in ONE process, drawn from a pool of instructor scripts
that touch every reset path (class overrides on parent and child feedback classes,
suppressions, formatters, mocks, real I/O, sections left open, TIFA module types,
custom feedback classes, phases, pools, hooks, tracing, re-contextualising) and a pool of
submissions, with repeats forced and ~30 % of gradings crashed at a seeded point of the
instructor script or of pedal code beneath it.  Every grading must equal the same
(script, submission, environment, fault) run as the FIRST grading of a pristine forked
child; repeats must equal each other.
"""
import hashlib
import json
import os
import sys

sys.path.insert(0, os.path.dirname(os.path.dirname(os.path.abspath(__file__))))

from sim import faults, grd, grd_pool, seeds, world  # noqa: E402

ID = 'C13'
LEVEL = 'exploration'
BUDGET = {'quick': 80, 'thorough': 780}
RULE = ('seeded histories of 2-10 gradings over %d instructor scripts x %d submissions x {standard, blockpy, terminal, gradescope}, repeats forced, ~30 %% of '
        'gradings aborted by an exception injected at the k-th instructor-script LINE event; each position compared with the same grading run first in a pristine forked child; '
        'distinct_nontrivial = distinct (history digest) of histories with >= 2 gradings of which at least one follows a grading that '
        'used a different script' % (len(grd_pool.SCRIPTS), len(grd_pool.SUBMISSIONS)))
ASSUMPTIONS = [
    'reference = the same grading as the first grading of a forked pristine template process (pedal imported, nothing graded); a sample is '
    're-checked against a truly fresh interpreter in the thorough tier',
    'memory addresses in messages are normalised; random.seed is set per grading (pool choice is the script\'s own randomness)',
    'compared fields: label, title, message, correct, score, captured output, and the class/text of the error a grading ended with',
    'Report class hooks are documented to survive clear() and are not used by the script pool',
]
COMPONENTS = {'real': ['pedal.command_line.modes.Bundle', 'pedal.environments.standard / blockpy / terminal / gradescope', 'pedal.core (report, feedback, environment)',
                       'pedal.source, pedal.tifa, pedal.cait, pedal.sandbox, pedal.assertions, pedal.resolvers.simple'],
              'stub': ['time.* (virtual clock)', 'console streams', 'script and submission pools (hand-written)']}

CRASH_CLASSES = ['ValueError', 'KeyError', 'TypeError', 'AttributeError', 'ZeroDivisionError', 'StudentError', 'AssertionError',
                 'RecursionError', 'SystemExit', 'KeyboardInterrupt']


def tasks(base_seed, tier):
    n = 2600 if tier == 'quick' else 90000
    chunk = 20
    return [{'id': 'hist:%d' % i, 'tier': tier,
             'seeds': [seeds.run_seed(base_seed ^ 0xC13, j) for j in range(i, min(n, i + chunk))]}
            for i in range(0, n, chunk)]


def determinism_sample(tasks_):
    return tasks_[:3]


def build(seed, tier):
    st = seeds.streams(seed)
    r, rf = st[seeds.OPS], st[seeds.FAULTS]
    n = r.randint(2, 10 if tier == 'thorough' else 7)
    scripts = sorted(grd_pool.SCRIPTS)
    subs = sorted(grd_pool.SUBMISSIONS)
    gradings = []
    # swarm: 4 histories in 10 stay mostly inside one family of scripts (same kind of process-wide state)
    family = None
    if r.random() < 0.4:
        family = grd_pool.FAMILIES[r.choice(sorted(grd_pool.FAMILIES))]
    sub_family = None
    if r.random() < 0.3:
        sub_family = grd_pool.SUB_FAMILIES[r.choice(sorted(grd_pool.SUB_FAMILIES))]
    for i in range(n):
        if gradings and r.random() < 0.25:
            g = dict(r.choice(gradings))       # forced repeat of an earlier (script, submission, env, fault)
            if family and r.random() < 0.5:
                g['submission_name'] = r.choice(subs)      # same script over another student, as the pipelines do
        else:
            g = {'script_name': r.choice(family) if family and r.random() < 0.75 else r.choice(scripts),
                 'submission_name': r.choice(sub_family) if sub_family and r.random() < 0.75 else r.choice(subs),
                 'env': r.choice(['standard', 'standard', 'standard', 'blockpy', 'blockpy', 'terminal', 'terminal', 'gradescope']),
                 'rng': r.randint(1, 10 ** 6)}
            if rf.random() < 0.3:
                # A crashed grading = an instructor script that dies AT ONE OF ITS OWN LINES (its own bug, or an
                # exception a pedal call raised back to it).  Crash points "d events into pedal code" were tried and
                # withdrawn: they tear pedal's own bookkeeping (e.g. Feedback.override between setattr and the
                # registration for restore) in ways no script failure can, and their position is a function of event
                # counts, not of the (script, submission) pair -- see DESIGN.md section 9.
                g['fault'] = {'kind': 'sync_script2', 'kI': rf.randint(1, 12), 'dP': 0, 'k': 10 ** 9,
                              'exc': rf.choice(CRASH_CLASSES)}
        gradings.append(g)
    return {'gradings': gradings, 'meta': {'seed': seed}}


def materialise(spec):
    gs = []
    for g in spec['gradings']:
        g2 = dict(g)
        g2['script'] = g.get('script') or grd_pool.SCRIPTS[g['script_name']]
        g2['submission'] = g['submission'] if 'submission' in g else grd_pool.SUBMISSIONS[g['submission_name']]
        gs.append(g2)
    return {'gradings': gs}


def execute(spec):
    return grd.execute(materialise(spec))


_REF_CACHE = {}


def reference(g):
    key = hashlib.blake2b(json.dumps(g, sort_keys=True).encode(), digest_size=8).hexdigest()
    if key not in _REF_CACHE:
        res = world.fork_run(execute, {'gradings': [g]}, timeout=60)
        _REF_CACHE[key] = res['gradings'][0]
        if len(_REF_CACHE) > 4000:
            _REF_CACHE.pop(next(iter(_REF_CACHE)))
    return _REF_CACHE[key]


def judge_with_refs(spec, res, refs):
    vs = []
    for i, (g, rec, ref) in enumerate(zip(spec['gradings'], res['gradings'], refs)):
        a, b = grd.comparable(rec), grd.comparable(ref)
        f = g.get('fault')
        count_defined = bool(f) and (f['kind'] == 'sync_pedal' or f.get('dP', 0) > 0)
        # A crash placed "d events into pedal code" is not a property of the (script, submission) pair: a change
        # that legitimately does less work the second time would move it.  Such gradings serve as polluters of
        # the later ones; their own result is compared only when the crash point is a line of the script itself.
        if a != b and not count_defined:
            fields = []
            if a['raised'] != b['raised']:
                fields.append('raised')
            if a['error'] != b['error']:
                fields.append('error')
            if a['output'] != b['output']:
                fields.append('output')
            ra, rb = a['resolution'], b['resolution']
            if (ra is None) != (rb is None):
                fields.append('resolution-present')
            elif ra is not None:
                for (k, va), (_, vb) in zip(ra, rb):
                    if va != vb:
                        fields.append(k)
            what = '+'.join(fields)
            prev = spec['gradings'][i - 1].get('script_name', '?') if i else '-'
            detail = 'grading %d (%s on %s, %s%s) differs from the same grading run first in a fresh process in: %s' % (
                i, g.get('script_name'), g.get('submission_name'), g.get('env'), ', crashed' if g.get('fault') else '', what)
            for f in fields[:2]:
                if f in ('raised', 'error', 'output'):
                    detail += ' | %s: here %r, fresh %r' % (f, str(a[f])[-90:], str(b[f])[-90:])
                elif ra is not None and rb is not None:
                    detail += ' | %s: here %r, fresh %r' % (f, str(dict(ra).get(f))[-90:], str(dict(rb).get(f))[-90:])
            vs.append({'sig': 'C13/%s/victim=%s' % (what, g.get('script_name')), 'detail': detail})
            break
        if rec.get('global_problems'):
            vs.append({'sig': 'C13/process-state-not-restored/%s' % g.get('script_name'),
                       'detail': 'after grading %d: %s' % (i, rec['global_problems'][:3])})
            break
        if not rec.get('argv_restored', True):
            vs.append({'sig': 'C13/argv-not-restored/%s' % g.get('script_name'), 'detail': 'sys.argv differs after grading %d' % i})
            break
    return vs


def run_spec(spec):
    res = world.fork_run(execute, spec, timeout=120)
    refs = [reference(g) for g in spec['gradings']]
    return judge_with_refs(spec, res, refs)


def run_task(task):
    out = {'runs': 0, 'violations': [], 'counters': {}, 'sets': {'distinct_nontrivial': [], 'digests': [], 'pairs': []},
           'samples': [], 'harness': [], 'virtual_s': 0.0}
    cnt = out['counters']

    def bump(name, n=1):
        cnt[name] = cnt.get(name, 0) + n

    for sd in task['seeds']:
        spec = build(sd, task['tier'])
        res = world.fork_run(execute, spec, timeout=120)
        out['runs'] += 1
        out['sets']['digests'].append(res['digest'])
        refs = []
        for g in spec['gradings']:
            before = len(_REF_CACHE)
            refs.append(reference(g))
            if len(_REF_CACHE) > before:
                out['runs'] += 1
                bump('reference_gradings_run')
        for v in judge_with_refs(spec, res, refs):
            v['spec'] = spec
            out['violations'].append(v)
        bump('gradings', len(spec['gradings']))
        names = [g['script_name'] for g in spec['gradings']]
        if len(set(names)) > 1:
            out['sets']['distinct_nontrivial'].append(res['digest'])
        for g, rec in zip(spec['gradings'], res['gradings']):
            out['sets']['pairs'].append('%s|%s|%s' % (g['script_name'], g['submission_name'], g['env']))
            if rec.get('fired'):
                f = rec['fired'][0]
                bump('fault_fired:script_crash' if f['kind'] == 'sync_script2' else 'fault_fired:environment_setup_crash')
                if f['event_kind'] == 'P':
                    bump('probe:crash_landed_in_pedal_code_beneath_script')
                if rec.get('raised'):
                    bump('probe:crash_escaped_run_ics_bundle')
            if rec.get('error'):
                bump('gradings_ending_with_error')
        dup = len(spec['gradings']) - len({json.dumps(g, sort_keys=True) for g in spec['gradings']})
        if dup:
            bump('probe:history_contains_repeat')
        if not out['samples']:
            out['samples'].append({'history': [(g['script_name'], g['submission_name'], g['env'], g.get('fault')) for g in spec['gradings']],
                                   'results': [(r['resolution'] and r['resolution']['label'], r['error'] and r['error']['cls'],
                                                r['raised'] and r['raised']['cls']) for r in res['gradings']]})
    return out


def shrink_moves(spec):
    import copy
    gs = spec['gradings']
    for i in reversed(range(len(gs))):
        if len(gs) > 1:
            c = copy.deepcopy(spec)
            del c['gradings'][i]
            yield c
    for i, g in enumerate(gs):
        if g.get('fault'):
            c = copy.deepcopy(spec)
            del c['gradings'][i]['fault']
            yield c
        if g.get('env') != 'standard':
            c = copy.deepcopy(spec)
            c['gradings'][i]['env'] = 'standard'
            yield c
        if g.get('submission_name') != 'correct':
            c = copy.deepcopy(spec)
            c['gradings'][i]['submission_name'] = 'correct'
            yield c


def evidence_extra(agg):
    return {'fault_kinds_fired': {k.split(':', 1)[1]: v for k, v in agg.counters.items() if k.startswith('fault_fired:')},
            'distinct_script_submission_env_triples': len(agg.sets.get('pairs', ())),
            'distinct_event_log_digests': len(agg.sets.get('digests', ()))}


def probe_warnings(agg):
    return ['%s never hit' % p for p in ('fault_fired:script_crash', 'probe:history_contains_repeat') if agg.counters.get(p, 0) == 0]
