"""setup_cmd: the seams exist, a run is deterministic, manifest and known-findings files parse."""
import json
import os
import sys

from sim import world


def main():
    world.setup_template()
    import c04
    from sim.monitor import MONITOR
    assert MONITOR.installed
    problems = []
    # seam liveness + determinism on a handful of seeds
    ts = [t for t in c04.tasks(1, 'quick') if t['kind'] == 'prog'][:4]
    for t in ts:
        spec = c04.with_fault(c04.build_program_task(t), 1, 'ValueError')
        a = world.fork_run(c04.execute, spec)
        b = world.fork_run(c04.execute, spec)
        if a['digest'] != b['digest']:
            problems.append('nondeterministic digest for %s' % t['id'])
        if not a['obs'][-1]['fired']:
            problems.append('fault injection seam did not fire for %s' % t['id'])
    with open(os.path.join(world.VERIF, 'MANIFEST.json')) as f:
        m = json.load(f)
    try:
        import jsonschema
        with open('/root/.vp/MANIFEST.schema.json') as f:
            jsonschema.validate(m, json.load(f))
    except (ImportError, FileNotFoundError):
        pass
    with open(os.path.join(world.VERIF, 'known_findings.json')) as f:
        json.load(f)
    for p in problems:
        print('HARNESS: %s' % p)
    print('selftest %s (aslr=%s hashseed=%s)' % ('FAILED' if problems else 'ok', os.environ.get('VERIF_ASLR'),
                                                 os.environ.get('PYTHONHASHSEED')))
    return 2 if problems else 0
