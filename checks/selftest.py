"""setup_cmd: the seams exist, runs are deterministic, manifest and known-findings files parse.

Determinism is proven on a sample of every check's tasks:
  * the same tasks are executed twice in this interpreter (fingerprint = digests of the event logs + violation
    signatures) and
  * once more in a FRESH interpreter with another PYTHONHASHSEED, with address-space randomisation left ON and a
    different worker count,
and all fingerprints must agree.  A disagreement is a HARNESS error (exit 2), never a pass.
"""
import hashlib
import json
import os
import subprocess
import sys

from sim import harness, world

CHECKS = ['c04', 'c05', 'c06', 'c13', 'c14', 'c15', 'c17', 'c20']


def fingerprint(modname, workers, n=None):
    check = __import__(modname)
    tasks = check.determinism_sample(check.tasks(424242, 'quick'))
    if n:
        tasks = tasks[:n]
    agg = harness.run_tasks(check, tasks, workers, 120)
    if agg.harness:
        return ['HARNESS:' + agg.harness[0][:200], 0, '']
    h = hashlib.blake2b(digest_size=10)
    for d in sorted(agg.sets.get('digests', ())):
        h.update(str(d).encode())
    # the verdict fingerprint is independent of the ORDER of events inside a run (which legitimately follows the
    # iteration order of string sets, i.e. PYTHONHASHSEED): violation signatures, run count and every counter
    # (faults fired per kind, probes hit, ops executed ...)
    v = hashlib.blake2b(digest_size=10)
    for s in sorted(x['sig'] for x in agg.violations):
        v.update(s.encode())
        h.update(s.encode())
    v.update(json.dumps([agg.runs, sorted((k, int(n)) for k, n in agg.counters.items() if not k.startswith('events_')
                                           and k not in ('preemptions_total', 'tolerated_lazy_module_keys'))]).encode())
    return [h.hexdigest(), agg.runs, v.hexdigest()]


def fingerprints(workers):
    world.setup_template()
    return {m: fingerprint(m, workers, n=3 if m in ('c04', 'c05') else 2) for m in CHECKS}


def main():
    world.setup_template()
    from sim.monitor import MONITOR
    assert MONITOR.installed
    problems = []
    import c04
    ts = [t for t in c04.tasks(1, 'quick') if t['kind'] == 'prog'][:3]
    for t in ts:
        spec = c04.with_fault(c04.build_program_task(t), 1, 'ValueError')
        a = world.fork_run(c04.execute, spec)
        if not a['obs'][-1]['fired']:
            problems.append('fault injection seam did not fire for %s' % t['id'])
    fa = fingerprints(8)
    fb = fingerprints(3)
    env = dict(os.environ)
    env.update({'PYTHONHASHSEED': '1', 'VERIF_NO_SETARCH': '1', 'VERIF_FINGERPRINT_WORKERS': '5'})
    env.pop('VERIF_REEXEC', None)
    out = subprocess.run([sys.executable, os.path.join(world.VERIF, 'checks', 'run.py'), '--fingerprint'],
                         env=env, capture_output=True, text=True, timeout=600)
    try:
        fc = json.loads(out.stdout.strip().splitlines()[-1])
    except Exception:
        fc = {}
        problems.append('fresh-interpreter fingerprint run failed: %s %s' % (out.stdout[-300:], out.stderr[-300:]))
    runs = 0
    hashseed_sensitive = []
    for m in CHECKS:
        runs += fa[m][1]
        if str(fa[m][0]).startswith('HARNESS'):
            problems.append('%s: %s' % (m, fa[m][0]))
        elif fa[m][0] != fb[m][0]:
            problems.append('%s: nondeterministic between two executions in one interpreter (8 vs 3 workers)' % m)
        elif fa[m][2] != fb[m][2]:
            problems.append('%s: verdict fingerprint differs between two executions in one interpreter' % m)
        elif fc and fa[m][2] != fc.get(m, [None, None, None])[2]:
            problems.append('%s: verdict fingerprint (violations, runs, fault/probe counters) differs in a fresh interpreter with '
                            'PYTHONHASHSEED=1, ASLR on, 5 workers' % m)
        elif fc and fa[m][0] != fc.get(m, [None])[0]:
            hashseed_sensitive.append(m)
    with open(os.path.join(world.VERIF, 'MANIFEST.json')) as f:
        m = json.load(f)
    try:
        import jsonschema
        with open('/root/.vp/MANIFEST.schema.json') as f:
            jsonschema.validate(m, json.load(f))
    except (ImportError, FileNotFoundError):
        pass
    with open(os.path.join(world.VERIF, 'known_findings.json')) as f:
        kf = json.load(f)
    for e in kf.get('findings', []):
        if e.get('status', 'open') == 'open' and e.get('replay') and not os.path.exists(os.path.join(world.VERIF, e['replay'])):
            problems.append('known finding without its witness replay: %s' % e['replay'])
    for p in problems:
        print('HARNESS: %s' % p)
    if hashseed_sensitive:
        print('note: event ORDER inside runs depends on PYTHONHASHSEED for %s (iteration over string sets inside pedal); '
              'verdicts and all counters agree, and the checks pin PYTHONHASHSEED=0' % ', '.join(hashseed_sensitive))
    print('selftest %s: %d simulated runs compared across 3 executions (aslr=%s hashseed=%s)' % (
        'FAILED' if problems else 'ok', runs, os.environ.get('VERIF_ASLR'), os.environ.get('PYTHONHASHSEED')))
    return 2 if problems else 0


def print_fingerprints():
    w = int(os.environ.get('VERIF_FINGERPRINT_WORKERS', '4'))
    print(json.dumps(fingerprints(w)))
    return 0
