"""C06 -- sandboxed execution is observationally equivalent to plain CPython execution.

The fault-free and the mirrored-fault configuration of engine ``sbx``, run separately
from C04/C05 so that relaxations made under faults cannot hide an ordinary bug.  The
reference is the same source executed as ``__main__`` by plain CPython in the same forked
child, behind the same I/O seams, and -- in the mirrored-fault configuration -- with the
same exception class injected at the same student LINE event.  That turns "same kind of
exception at the same source line" into a statement about every line-event position of
every generated program, not only the few lines where a program happens to fail.
"""
import os
import re
import sys

sys.path.insert(0, os.path.dirname(os.path.dirname(os.path.abspath(__file__))))

from sim import faults, histories, progs, sbx, seeds, world  # noqa: E402
from sim.shrinkers import sbx_moves  # noqa: E402
import c04  # noqa: E402

ID = 'C06'
LEVEL = 'exploration'
BUDGET = {'quick': 75, 'thorough': 780}
RULE = ('workload: seeded CS1-grammar programs (optionally importing a second student file) followed by calls/evaluations of their '
        'functions with argument tuples on both sides of MAXIMUM_TEMPORARY_LENGTH (input generation); decided by: refinement against a '
        'plain-CPython reference executor behind the same I/O seams, fault-free (~60 %) and with the same fault mirrored into both '
        'executions at the same student LINE event (~40 %); distinct_nontrivial = distinct event-log digests of runs with >= 5 student '
        'LINE events')
ASSUMPTIONS = [
    'programs use no blocked feature and nothing with legitimately different behaviour (id(), wall clock, frame-depth-sensitive recursion)',
    'printed text is compared after deleting each input prompt and one optional following newline from the sandbox side (the reference echoes nothing)',
    'student-defined globals: names the sandbox injects itself (its builtin replacements, the call target "_") are not student-defined',
    'data values are compared by (type, ==) recursively; functions, classes and modules by name; instances by class name and attribute values',
]
COMPONENTS = c04.COMPONENTS
MIRROR_CLASSES = faults.ORDINARY + faults.EXITS


def tasks(base_seed, tier):
    n = 7000 if tier == 'quick' else 200000
    chunk = 40
    return [{'id': 'run:%d' % i, 'tier': tier,
             'seeds': [seeds.run_seed(base_seed ^ 0xC06, j) for j in range(i, min(n, i + chunk))]}
            for i in range(0, n, chunk)]


def determinism_sample(tasks_):
    return tasks_[:4]


def build(seed, tier):
    st = seeds.streams(seed)
    rc = st[seeds.CONFIG]
    ro = st[seeds.OPS]
    rf = st[seeds.FAULTS]
    with_helper = rc.random() < 0.2
    prog = progs.gen_program(st[seeds.PROGRAM], size=rc.randint(3, 10 if tier == 'quick' else 16), with_helper=with_helper,
                             planted_raise=rc.random() < 0.1, with_data=rc.random() < 0.2)
    stmts = [list(s) for s in histories.LIBRARY] + prog['files']['answer.py']
    if with_helper and rc.random() < 0.4:
        stmts.append(['from helper import hdouble as hd2'])
        stmts.append(['print(hd2(4))'])
    if with_helper and rc.random() < 0.35:
        # the FIRST import of the second file is a from-import, the plain import (or another from-import) follows
        stmts.insert(len(histories.LIBRARY), ['from helper import hdiv as hd0'])
        stmts.append(['from helper import hshow as hs9'])
        stmts.append(['print(hd0(5), hs9(1))'])
    late_import = with_helper and rc.random() < 0.5
    if late_import:
        # a function that imports the second file when it is CALLED: the module was imported by the program's own
        # run already, so this must not execute the file again
        stmts.append(['def hlate(x):', '    import helper', '    return helper.hbump(x) * 100 + helper.hcount'])
    files = dict(prog['files'])
    files['answer.py'] = stmts
    mirrored = rc.random() < 0.4
    ops = [{'op': 'run', 'inputs': [ro.choice(['4', '15', 'word', '', '2.5']) for _ in range(ro.randint(0, 4))]}]
    gen_funcs = [f for f in prog['funcs'] if not f[0].startswith('f') or True]
    for i in range(ro.randint(0, 5)):
        c = ro.random()
        if c < 0.55:
            fn = ro.choice(sorted(histories.LIB_FUNCS))
            op = {'op': 'call', 'fn': fn, 'args_src': [histories.gen_arg(ro, k) for k in histories.LIB_FUNCS[fn]]}
            if fn == 'kw' and ro.random() < 0.6:
                c2 = ro.random()
                if c2 < 0.5:
                    op['kwargs'] = ro.choice([{'b': 5}, {'c': 7}, {'b': 1, 'c': 1}])
                elif c2 < 0.75:
                    op['function_kwargs'] = ro.choice([{'b': 4}, {'c': 6, 'b': 0}])
                else:
                    op['kwargs_locals'] = ro.choice([{'b': 'counter'}, {'c': 'counter + 1'}])
            if fn in ('echo', 'ident', 'size') and ro.random() < 0.2:
                op['args_locals'] = [ro.choice(['counter', 'str(counter)', '[counter, counter]'])]
            if fn in ('quiet', 'biggest') and ro.random() < 0.3:
                # fewer (or sparser) local expressions than positional values: the rest stays positional
                op['args_locals'] = ro.choice([['counter'], [None, 'counter'], ['counter', 'counter + 1'], [None, None]])
            if ro.random() < 0.12:
                op['target'] = ro.choice(['result_box', 'answer_value'])
        elif c < 0.75 and gen_funcs:
            name, npar, kind = ro.choice(gen_funcs)
            op = {'op': 'call', 'fn': name, 'args_src': [repr(ro.choice([0, 1, 2, -4, 9, 10 ** 30])) for _ in range(npar)]}
        elif c < 0.9:
            op = {'op': 'evaluate', 'expr': ro.choice(['quiet(1, 2)', 'chatty(2)', 'boom(0)', 'boom(5)', 'tick()', 'counter',
                                                       "ask('<<e1>>')", '1 + 1', "echo('v')", 'swallow(0)', '[tick(), tick()]',
                                                       "kw(1, c=9)", "size('abc') * 2", "ident({'a': (1, 2)})"])}
        else:
            op = {'op': 'run', 'code': histories.gen_snippet(ro, i)}
        if ro.random() < 0.2:
            op['inputs'] = [ro.choice(['in1', '7'])]
        ops.append(op)
        if ro.random() < 0.12:
            # the instructor passes the result of one call on to another call
            consumer, producer = ro.choice(histories.RESULT_CHAINS)
            ops.append({'op': 'call', 'fn': producer,
                        'args_src': [histories.gen_arg(ro, k) for k in histories.LIB_FUNCS.get(producer, [])]})
            ops.append({'op': 'call', 'fn': consumer, 'args_src': ['@ret:%d' % (len(ops) - 1)]})
    if late_import:
        for _ in range(ro.randint(1, 2)):
            ops.append({'op': ro.choice(['call', 'call', 'evaluate']), 'fn': 'hlate', 'args_src': ['3']})
            if ops[-1]['op'] == 'evaluate':
                ops[-1] = {'op': 'evaluate', 'expr': 'hlate(2)'}
    if mirrored:
        target = rf.randrange(len(ops))
        if ops[target].get('fn') in ('make_grumpy', 'use_grumpy', 'make_card', 'use_card'):
            # pedal itself calls the student's __repr__ there (student LINE events the direct call does not have):
            # a fault defined by an event count would land on different lines in the two executions
            target = 0
        ops[target]['fault'] = {'kind': 'sync_student', 'k': rf.randint(1, 30 if target == 0 else 8), 'exc': rf.choice(MIRROR_CLASSES)}
    tracer = rc.choice(['none', 'none', 'none', 'native', 'calls'])
    cfg = {'tracer': tracer, 'ref': True, 'data': True}
    knob = rc.random()
    if knob < 0.1:
        cfg['max_temp'] = 0
    elif knob < 0.2:
        cfg['max_temp'] = 12
    elif knob < 0.3:
        cfg['max_temp'] = 10 ** 6
    if rc.random() < (0.3 if with_helper else 0.05):
        cfg['sandbox_threaded'] = True
    return {'files': files, 'ops': ops, 'config': cfg, 'meta': {'tracer': tracer, 'seed': seed, 'mirrored': mirrored,
                                                                 'sandbox_threaded': bool(cfg.get('sandbox_threaded'))}}


def execute(spec):
    return sbx.execute(c04.materialise(spec))


def run_spec(spec):
    return judge(spec, world.fork_run(execute, spec, timeout=60))


def text_pattern(events):
    parts = []
    for e in events:
        if e[0] == 'out':
            parts.append(re.escape(e[1]))
        else:
            parts.append(re.escape(str(e[1])) + '\n?')
    return re.compile(''.join(parts), re.S)


SANDBOX_OWN_NAMES = {'_', 'compile', 'eval', 'exec', 'exit', 'globals', 'input', 'open', '__import__', 'print'}


def judge(spec, res):
    vs = []
    targets = {'_'}          # names the instructor asked results to be stored under (so far in this history)
    for op, o in zip(spec['ops'], res['obs']):
        kind = op['op']
        if op.get('target'):
            targets.add(op['target'])
        if kind not in sbx.EXEC_OPS:
            continue
        ref = o.get('ref')
        if ref is None:
            if o.get('skipped') == 'no-such-function':
                continue
            return vs
        if o.get('escaped') is not None:
            if not op.get('fault') and ref.get('outcome') is None and kind in ('call', 'evaluate'):
                # nothing was injected and the direct call returns normally, yet the sandboxed call raised into the
                # instructor script (e.g. while marshalling the arguments)
                e = o['escaped']
                vs.append({'sig': 'C06/outcome-differs/%s/sandbox-call-raised-%s' % (kind, e['cls']),
                           'detail': 'op %d (%s %s): the direct call returns normally; the sandboxed call raised %s(%s) at %s' % (
                               o['index'], kind, op.get('fn') or op.get('expr'), e['cls'], e['str'][:60], e['where'][-2:])})
            return vs      # (otherwise C04/C05 territory)
        ro = ref['outcome']
        if ro is not None and 'Exception' not in ro['mro'] and 'SystemExit' not in ro['mro']:
            return vs
        entry = kind + ('/code' if op.get('code') else '') + ('/mirrored-fault' if op.get('fault') and o.get('fired') else '')

        def viol(aspect, detail, cls=''):
            vs.append({'sig': 'C06/%s/%s%s' % (aspect, entry, ('/' + cls) if cls else ''),
                       'detail': 'op %d (%s): %s' % (o['index'], kind, detail)})
        sx = o['sb_exc']
        # ---- outcome
        if ro is None and sx is not None:
            viol('outcome-differs', 'CPython: normal end; sandbox: %s(%s) at line %s' % (sx['cls'], sx['str'][:60], sx['line']), 'sandbox-raises-' + sx['cls'])
        elif ro is not None and sx is None:
            viol('outcome-differs', 'CPython: %s at line %s; sandbox: normal end' % (ro['cls'], ro['line']), 'sandbox-normal')
        elif ro is not None:
            if ro['cls'] not in sx['mro']:
                viol('exception-class-differs', 'CPython: %s; sandbox: %s' % (ro['cls'], sx['cls']), '%s-vs-%s' % (ro['cls'], sx['cls']))
            elif ro['line'] is not None and sx['line'] != ro['line']:
                viol('exception-line-differs', 'CPython: %s line %s; sandbox traceback line %s' % (ro['file'], ro['line'], sx['line']))
            elif ro['line'] is not None and ro['innermost_student'] and ro['file'] == 'answer.py':
                rt = [f for f in o['new_feedback'] if f['category'] == 'runtime']
                if len(rt) == 1 and rt[0]['line'] != ro['line']:
                    viol('feedback-line-differs', 'raised at student line %s; feedback.location.line = %r' % (ro['line'], rt[0]['line']))
        # ---- printed text
        if o['new_contexts']:
            got = o['new_contexts'][-1]['output']
            if not text_pattern(ref['events']).fullmatch(got):
                viol('output-differs', 'CPython wrote %r; sandbox captured %r' % (ref['text'][-80:], got[-80:]))
            if o['new_contexts'][-1]['inputs'] != ref['consumed']:
                viol('inputs-differ', 'CPython consumed %r; sandbox %r' % (ref['consumed'], o['new_contexts'][-1]['inputs']))
        else:
            viol('no-execution-recorded', 'sandbox recorded no execution context')
        # ---- return value of call / evaluate
        if kind in ('call', 'evaluate') and ro is None and sx is None:
            if o.get('ret') != ('value', ref['value_canon']) and list(o.get('ret', ())) != ['value', ref['value_canon']]:
                viol('return-value-differs', 'direct call returns %r; sandbox returns %r' % (ref['value_canon'], o.get('ret')))
        if kind in ('call', 'evaluate') and ro is not None and sx is not None:
            if not o.get('ret') or o['ret'][0] != 'exception':
                viol('return-value-differs', 'call failed but returned %r instead of the exception' % (o.get('ret'),))
        # ---- student-defined globals
        names, rnames = o.get('names'), ref.get('names')
        if names is not None and rnames is not None and not vs:
            for k, v in rnames.items():
                if k not in names:
                    viol('global-missing', 'CPython defines %r, sandbox.data does not' % k)
                    break
                if names[k] != v and list(names[k]) != list(v):
                    viol('global-value-differs', '%s: CPython %r, sandbox %r' % (k, v, names[k]))
                    break
            extra = [k for k in names if k not in rnames and k not in SANDBOX_OWN_NAMES and k not in targets]
            if extra:
                viol('global-extra', 'sandbox.data has %r which CPython does not define' % (extra[:4],),
                     'temporary' if any(k.startswith('_temporary_') for k in extra) else '')
        if vs:
            return vs
    return vs


def run_task(task):
    out = {'runs': 0, 'violations': [], 'counters': {}, 'sets': {'distinct_nontrivial': [], 'digests': []},
           'samples': [], 'harness': [], 'virtual_s': 0.0}
    cnt = out['counters']

    def bump(name, n=1):
        cnt[name] = cnt.get(name, 0) + n

    for sd in task['seeds']:
        spec = build(sd, task['tier'])
        res = world.fork_run(execute, spec, timeout=60)
        out['runs'] += 1
        out['sets']['digests'].append(res['digest'])
        for v in judge(spec, res):
            v['spec'] = spec
            out['violations'].append(v)
        nS = 0
        for op, o in zip(spec['ops'], res['obs']):
            if op['op'] not in sbx.EXEC_OPS:
                continue
            nS += o.get('nS', 0)
            bump('exec_ops')
            if o.get('fired'):
                bump('fault_fired:mirrored_sync_student')
                if o.get('ref') and o['ref']['outcome'] is None:
                    bump('probe:mirrored_fault_swallowed_by_student_try')
            if o.get('temporaries') is not None and op['op'] == 'call':
                pass
            if o.get('escaped') is not None:
                bump('discarded:op_raised')
            if o.get('ref') and o['ref']['outcome'] is not None:
                bump('ref_outcome:%s' % ('SystemExit' if 'SystemExit' in o['ref']['outcome']['mro'] else 'Exception'))
        bump('config:max_temp=%s' % spec['config'].get('max_temp', 'default'))
        bump('config:mirrored=%s' % spec['meta']['mirrored'])
        bump('config:sandbox_threaded=%s' % bool(spec['config'].get('sandbox_threaded')))
        if nS >= 5:
            out['sets']['distinct_nontrivial'].append(res['digest'])
        if not out['samples'] and nS >= 10:
            out['samples'].append({'program_tail': progs.source(spec['files']['answer.py'][len(histories.LIBRARY):]),
                                   'ops': spec['ops'], 'config': spec['config'], 'student_line_events': nS})
    return out


def shrink_moves(spec):
    return sbx_moves(spec)


def evidence_extra(agg):
    return {'fault_kinds_fired': {k.split(':', 1)[1]: v for k, v in agg.counters.items() if k.startswith('fault_fired:')},
            'distinct_event_log_digests': len(agg.sets.get('digests', ()))}
