"""C14 -- a time-limit violation yields exactly one timeout report and a usable sandbox.

Engine ``thr``: the grader thread and the abandoned student thread(s) are real threads
parked and released one at a time at every monitored LINE event; the join timer is a
virtual clock; ``PyThreadState_SetAsyncExc`` is simulated (the SystemExit lands at a LINE
boundary of the target thread, 0-2 of its own events after it is next scheduled, in
student code or in pedal's own setup/cleanup frames).  One run = one sandbox: op k is a
threaded execution of a non-terminating / slow program, later ops are terminating
executions with a known reference result, then a drain phase lets every abandoned
thread run until it is done, blocked or out of budget.
"""
import os
import sys

sys.path.insert(0, os.path.dirname(os.path.dirname(os.path.abspath(__file__))))

from sim import histories, progs, sbx, seeds, thr, world  # noqa: E402
import c04  # noqa: E402
import c06  # noqa: E402

ID = 'C14'
LEVEL = 'exploration'
BUDGET = {'quick': 90, 'thorough': 800}
RULE = ('seeded schedules (policies g-first, s-first, sticky, uniform, PCT-d, zombie-late, stall) x seeded allowed_time placement '
        '(inside pedal\'s setup, deep in the student program, within +-20 events of the natural end, never) x 15 program classes x '
        '1-3 later executions (+ idle periods) x async-exception landing delay 0-2; distinct_nontrivial = distinct event-log '
        'digests (thread, file, function, line per event) of runs in which the timer fired')
ASSUMPTIONS = [
    'pre-emption and async-exception landing happen at LINE-event boundaries of student code and pedal code (INSTRUCTION boundaries inside '
    'sandbox.py/timeout.py for a share of thorough-tier runs); code inside unittest.mock, io and threading runs atomically',
    'the simulated SetAsyncExc delivers when the target thread is next scheduled (+0-2 events); a thread blocked in C never receives it',
    'fairness is assumed only so that the grader gets CPU (at most 400 consecutive events of other threads while it is runnable)',
    'text an abandoned thread writes to the real console after the patches are gone is counted, not judged',
]
COMPONENTS = {'real': c04.COMPONENTS['real'] + ['pedal.sandbox.timeout (InterruptableThread, timeout)', 'CPython threads (one runs at a time)'],
              'stub': c04.COMPONENTS['stub'] + ['Thread.start/join/is_alive wrappers (join raises a pending asynchronous exception out of '
                                                'the wait and then reports the waited-for thread as stopped, as CPython 3.12 does)', 'PyThreadState_SetAsyncExc (fake ctypes)',
                                                'threading.Event.wait / Lock for student code']}

LIB = progs.source(histories.LIBRARY)

CLASSES = {
    'busy': ("x = 0\nwhile True:\n    x += 1\n", 'run'),
    'busy-pass': ("while True:\n    pass\n", 'run'),
    'print-loop': ("while True:\n    print('spam')\n", 'run'),
    'input-loop': ("while True:\n    v = input('<<z>>')\n", 'run'),
    'swallow': ("x = 0\nwhile True:\n    try:\n        x += 1\n    except BaseException:\n        pass\n", 'run'),
    'swallow-print': ("while True:\n    try:\n        print('zz')\n    except BaseException:\n        pass\n", 'run'),
    'swallow-input': ("while True:\n    try:\n        v = input('<<zi>>')\n    except BaseException:\n        pass\n", 'run'),
    'finally-print': ("try:\n    while True:\n        pass\nfinally:\n    print('cleanup')\n", 'run'),
    'blocked-event': ("import threading\nprint('waiting')\nthreading.Event().wait()\n", 'run'),
    'blocked-lock': ("import threading\nlk = threading.Lock()\nlk.acquire()\nlk.acquire()\n", 'run'),
    'sleep-loop': ("import time\nwhile True:\n    time.sleep(1)\n", 'run'),
    'slow-finishing': (None, 'run'),
    'import-loop': ("import helper\nprint('never')\n", 'run'),
    'swallow-once-then-finish': ("x = 0\ntry:\n    while True:\n        x += 1\nexcept BaseException:\n    x = -1\ny = x + 1\n", 'run'),
    # `except Exception` does not catch the SystemExit that ends an abandoned thread: these two are mortal
    'swallow-exception': ("x = 0\nwhile True:\n    try:\n        x += 1\n    except Exception:\n        pass\n", 'run'),
    'swallow-exception-print': ("while True:\n    try:\n        print('ee')\n    except Exception:\n        pass\n", 'run'),
    'call-spin': ("def spin(n, pad=''):\n    print('spinning')\n    while True:\n        n += 1\n", 'call'),
    'eval-spin': ("def spin(n, pad=''):\n    while True:\n        n += 1\n", 'evaluate'),
}
IMMORTAL = {'swallow', 'swallow-print', 'swallow-input', 'blocked-event', 'blocked-lock'}
POLICIES = ['g-first', 's-first', 'sticky', 'uniform', 'uniform', 'pct', 'pct', 'zombie-late', 'stall']


def tasks(base_seed, tier):
    n = 11000 if tier == 'quick' else 400000
    chunk = 40
    return [{'id': 'thr:%d' % i, 'tier': tier,
             'seeds': [seeds.run_seed(base_seed ^ 0xC14, j) for j in range(i, min(n, i + chunk))]}
            for i in range(0, n, chunk)]


def determinism_sample(tasks_):
    return tasks_[:5]


def later_op(r, i, threaded_ok=True):
    c = r.random()
    if c < 0.35:
        op = {'op': 'run', 'code': histories.gen_snippet(r, i)}
    elif c < 0.85:
        fn = r.choice(['echo', 'ask', 'quiet', 'chatty', 'noeol', 'blank', 'tick', 'writer', 'ask_twice', 'kw'])
        op = {'op': 'call', 'fn': fn, 'args_src': [histories.gen_arg(r, k, False) for k in histories.LIB_FUNCS[fn]]}
    else:
        op = {'op': 'evaluate', 'expr': r.choice(['quiet(1, 2)', 'chatty(2)', 'tick()', "ask('<<e1>>')", "echo('v')"])}
    if op['op'] != 'evaluate' and r.random() < 0.4:
        op['inputs'] = [r.choice(['in1', '7', 'zz']) for _ in range(r.randint(1, 2))]
    if threaded_ok and r.random() < 0.3:
        op['threaded'] = True
    return op


def build(seed, tier):
    st = seeds.streams(seed)
    rc, ro, rs = st[seeds.CONFIG], st[seeds.OPS], st[seeds.SCHEDULE]
    cls = rc.choice(sorted(CLASSES))
    tail, entry = CLASSES[cls]
    files = {}
    ops = []
    n_loop = None
    if cls == 'slow-finishing':
        n_loop = rc.randint(5, 300)
        tail = "t = 0\nfor i in range(%d):\n    t += i\nprint('done', t)\n" % n_loop
    if cls == 'import-loop':
        files['helper.py'] = "print('helper start')\nwhile True:\n    pass\n"
    files['answer.py'] = LIB + tail
    finishing = cls == 'slow-finishing'
    if entry == 'run':
        ops.append({'op': 'run', 'threaded': True, 'noref': not finishing, 'inputs': ['a', 'b'] if rc.random() < 0.3 else None})
    else:
        ops.append({'op': 'run'})
        if entry == 'call':
            ops.append({'op': 'call', 'fn': 'spin', 'args_src': ['0', rc.choice(["'p'", "'p' * 300", "list(range(150))"])],
                        'threaded': True, 'noref': True})
        else:
            ops.append({'op': 'evaluate', 'expr': 'spin(0)', 'threaded': True, 'noref': True})
    k = len(ops) - 1
    if ops[k].get('inputs') or 'input' in cls:
        ops.append({'op': 'clear_input'})
    for i in range(rc.randint(0, 3)):
        if ro.random() < 0.3:
            ops.append({'op': 'idle', 'seconds': ro.choice([0.01, 0.1, 0.5, 2.0])})
        ops.append(later_op(ro, i))
    if ro.random() < 0.3:
        ops.append({'op': 'idle', 'seconds': ro.choice([0.05, 0.5])})
    # --- timer placement (1 event ~ 1 ms of virtual time)
    c = rc.random()
    calibrate = None
    if finishing:
        natural = 560 + 2 * n_loop
        if c < 0.7:
            T = max(0.002, (natural + rc.randint(-40, 40)) / 1000.0)
            placement = 'near-natural-end'
            # the exact instant is calibrated at run time: a first run of the same spec with the same schedule seed
            # and no limit gives the virtual time at which the student thread would finish; the limit is then put a
            # few events before that instant, i.e. inside the thread's own cleanup / just before its last lines
            calibrate = rc.choice([0.001, 0.003, 0.006, 0.01, 0.015, 0.02, 0.03, 0.045, 0.07, -0.002])
        elif c < 0.85:
            T = rc.uniform(0.002, natural / 1000.0)
            placement = 'before-end'
        else:
            T = 30.0
            placement = 'never'
    elif c < 0.35:
        T = rc.uniform(0.002, 0.6)
        placement = 'inside-setup'
    elif c < 0.95:
        T = rc.uniform(0.6, 2.0)
        placement = 'deep-in-program'
    else:
        T = rc.uniform(0.55, 0.7)
        placement = 'setup-boundary'
    if T < 1.5:
        for o in ops[k + 1:]:
            o.pop('threaded', None)      # a later threaded execution needs ~1000 events of its own to finish in time
    policy = rs.choice(POLICIES)
    params = {'async_delay': rs.choice([0, 0, 0, 1, 2])}
    est = int(T * 1000) + 2500
    if policy == 'pct':
        d = rs.randint(1, 3)
        params['change_points'] = sorted(rs.randint(1, est) for _ in range(d))
    elif policy == 'zombie-late':
        params['zombie_late'] = rs.choice([30, 200, 600, 900, 1500, 2500])
    elif policy == 'stall':
        a = rs.randint(1, est)
        params['stall'] = [rs.choice([0, 1]), a, a + rs.randint(20, 800)]
    spec = {'files': files, 'ops': ops, 'allowed_time': round(T, 4),
            'config': {'tracer': rc.choice(['none', 'none', 'none', 'native']), 'ref': True},
            'sched': {'policy': policy, 'seed': rs.randint(1, 10 ** 9), 'params': params},
            'ref_prelude': None if finishing else LIB + (tail if entry != 'run' else ''),
            'meta': {'cls': cls, 'k': k, 'placement': placement, 'policy': policy, 'seed': seed}}
    if calibrate is not None:
        spec['calibrate'] = calibrate
    if (cls == 'import-loop' and rc.random() < 0.5) or rc.random() < 0.08:
        spec['sandbox_threaded'] = True
        for o in spec['ops'][:k]:
            if o.get('op') in sbx.EXEC_OPS:
                o['threaded'] = False         # the defining run before a call/evaluate is not the execution under test
        for o in spec['ops'][k + 1:]:
            o.pop('threaded', None)
            if T < 1.5 and o.get('op') in sbx.EXEC_OPS:
                o['threaded'] = False     # the sandbox-wide default would make every later execution threaded
    if tier == 'thorough' and rc.random() < 0.15:
        spec['instruction_level'] = ['_execute', '_execute_with_timeout', '_stop_mocking', '_stop_patches', '_start_patches',
                                     '_capture_exception', 'append_output', 'terminate', 'raise_exception', 'run', 'timeout']
    return spec


def execute(spec):
    return thr.execute(spec)


def run_spec(spec):
    return judge(spec, world.fork_run(execute, spec, timeout=90))


# --------------------------------------------------------------------------- oracle

ZOMBIE_KIND = {
    'busy': 'mortal-silent', 'busy-pass': 'mortal-silent', 'sleep-loop': 'mortal-silent',
    'import-loop': 'mortal-printing',      # the imported file prints once before it loops (possibly late, from its own nested thread)
    'call-spin': 'mortal-silent', 'eval-spin': 'mortal-silent', 'slow-finishing': 'mortal-silent',
    'swallow-once-then-finish': 'mortal-silent',
    'swallow-exception': 'mortal-silent', 'swallow-exception-print': 'mortal-printing',
    'print-loop': 'mortal-printing', 'finally-print': 'mortal-printing', 'input-loop': 'mortal-reading',
    'swallow': 'immortal-silent', 'swallow-print': 'immortal-printing', 'swallow-input': 'immortal-reading',
    'blocked-event': 'blocked', 'blocked-lock': 'blocked',
}
SETUP_FUNCS = {'_start_mocking', '_start_patches', '_reset_builtins', '_mock_builtins', '_track_inputs', 'mock_function',
               'disabled_builtin', '_execute', '__init__', 'as_filename', '__enter__', 'clear_exception', 'run', '_import'}
CLEANUP_FUNCS = {'_stop_mocking', '_stop_patches', 'append_output', '_capture_exception', '__exit__', 'close', 'getvalue'}


STRICT_SETUP = {'_start_mocking', '_start_patches', '_reset_builtins', '_mock_builtins', '_track_inputs', 'mock_function',
                'disabled_builtin', 'clear_exception', 'as_filename', '__enter__'}
STRICT_CLEANUP = {'_stop_mocking', '_stop_patches', 'append_output', '_capture_exception', '__exit__'}


def site_class(site):
    """site = {'stack': [(file, function), ...] innermost first, 'student_events': n, 'started': bool}"""
    stack = site['stack']
    if not site.get('started') or not stack:
        return 'pedal-setup'            # given up on before it executed anything: all of pedal's setup is still ahead
    funcs = [f for (_, f) in stack]
    files = [fl for (fl, _) in stack]
    if any(f in STRICT_CLEANUP for f in funcs):
        return 'pedal-cleanup'          # incl. student __str__ / report hooks running beneath the recorder
    if any(f in STRICT_SETUP for f in funcs):
        return 'pedal-setup'
    if files[0] in ('answer.py', 'helper.py'):
        return 'student-code'
    if any(fl == 'timeout.py' and f == 'timeout' for fl, f in stack) and any(fl in ('answer.py', 'helper.py') for fl in files):
        return 'pedal-nested-timeout'   # the student thread is itself waiting for a nested import thread
    if funcs[0] in ('_input_tracker', '_restricted_import', '_restricted_open', '_import'):
        return 'pedal-io'
    if any(fl in ('answer.py', 'helper.py') for fl in files):
        return 'pedal-io'               # some other pedal service called from student code
    # inside _execute / run itself, outside the helpers: before the student code started, or after it ended
    return 'pedal-setup' if site.get('student_events', 0) == 0 else 'pedal-cleanup'


def landing_site(res, upto_events=None):
    """Where the execution's own thread WAS when pedal gave up on it (the instant it was marked and the
    asynchronous SystemExit was sent; the exception itself lands 0-2 of the thread's events later, or never), as a class:
    student-code | pedal-setup | pedal-cleanup | pedal-io (input tracker / restricted import, called from student code)
    | pedal-nested-timeout | n/a (pedal never gave up on it)."""
    born = res['sched'].get('thread_born') or {}
    mine = [int(t) for t, op in born.items() if op == upto_events] if upto_events is not None else None
    if mine:
        mine = [min(mine)]       # the thread pedal started for this execution (not the nested-import threads it started)
    sent = res['sched'].get('thread_sent_site') or {}
    for t in sorted(int(k) for k in sent):
        if t != 0 and (mine is None or t in mine):
            st = sent[t] if t in sent else sent[str(t)]
            cls = site_class(st)
            if cls == 'pedal-setup':
                # the setup window has two different root causes: the thread dies where it stands (+0: everything it
                # did is on the sandbox's stacks for the caller to undo) or it first goes on with the setup (+1, +2)
                cls += '+%d' % (st.get('delay') or 0)
            return cls
    return 'n/a'


def judge(spec, res, k=None):
    vs = []
    meta = spec['meta']
    k = meta['k'] if k is None else k
    obs = res['obs']
    if len(obs) <= k:
        return vs
    # a LATER threaded execution that exceeds the limit itself (starved by the schedule or by an immortal
    # abandoned thread) is a timed-out execution in its own right: everything from there on is judged with
    # that execution's own landing site, and this walk stops before it
    end = len(obs)
    for j in range(k + 1, len(obs)):
        if obs[j].get('async_sent', 0) >= 1:
            end = j
            break
    if end < len(obs):
        head = dict(res)
        head['obs'] = obs[:end]
        head['drained'] = None
        vs = judge(spec, head, k)
        return vs or judge(spec, res, end)
    ok = obs[k]
    site = landing_site(res, k)
    primary = k == meta['k']
    kind = ZOMBIE_KIND[meta['cls']] if primary else 'later-execution-starved-by-%s' % ZOMBIE_KIND[meta['cls']]
    ctx = '%s/landed=%s' % (kind, site)

    def viol(inv, detail, extra=''):
        vs.append({'sig': 'C14/%s/%s%s' % (inv, ctx, extra), 'detail': detail})
    # "the execution exceeded the allowed time" = pedal gave up on the thread (terminate() reached the
    # async-exception seam).  A join that expires while the thread finishes before pedal looks is in time.
    fired = ok.get('async_sent', 0) >= 1 or (
        ok.get('timer_fired', 0) >= 1 and ok.get('sb_exc') is not None and 'TimeoutError' in ok['sb_exc']['mro']
        and (ok.get('ref') is None or ok['ref']['outcome'] is None))
    # ---- T1 bounded delay, the call returns
    if ok.get('escaped') is not None:
        e = ok['escaped']
        if e['cls'] == 'SimDeadlock':
            viol('T1-grader-waits-on-student-thread', 'the timed-out call never returns: %s' % e['str'])
        else:
            viol('T1-timed-out-call-raised', 'op %d raised %s(%s) at %s' % (k, e['cls'], e['str'][:60], e['where'][-2:]), '/as=%s' % e['cls'])
        return vs
    if not fired:
        # the program finished in time (or the limit is far away): an ordinary execution
        if ok.get('ref') is not None:
            for v in c06.judge({'ops': spec['ops'][:k + 1]}, {'obs': obs[:k + 1]}):
                vs.append({'sig': v['sig'].replace('C06/', 'C14/in-time-execution-differs/', 1) + '/' + meta['cls'], 'detail': v['detail']})
        return vs
    if ok.get('g_events_after_timer', 0) > 3000:
        viol('T1-unbounded-delay', 'grader needed %s own events after the limit (%.2f virtual s incl. other threads)' % (
            ok.get('g_events_after_timer'), ok.get('virtual_after_timer', 0)))
    # the timed-out call()/evaluate() hands the timeout back to the instructor, not a value from an earlier execution
    if spec['ops'][k]['op'] in ('call', 'evaluate') and ok.get('ret') is not None:
        if ok['ret'][0] != 'exception' or ok['ret'][1] != 'TimeoutError':
            viol('T2-timed-out-call-returned-something-else', 'the timed-out %s returned %r' % (spec['ops'][k]['op'], ok['ret']))
            return vs
    if res['sched']['probe'].get('untimed_join_on_zombie'):
        viol('T1-grader-joins-abandoned-thread', 'join() without timeout on a thread that already timed out')
    # ---- walk the boundaries from op k on
    later_exec = [i for i in range(k + 1, len(obs)) if obs[i]['op'] in sbx.EXEC_OPS and not obs[i].get('not_executed')]
    next_exec = later_exec[0] if later_exec else None
    bounds = [b for b in res['boundaries']]
    for i in range(k, len(obs)):
        o = obs[i]
        b = o.get('boundary') or next((x for x in bounds if x['label'] == 'after-op-%d' % i), None)
        if b is None:
            continue
        # T3: exactly one runtime feedback attributable to op k, the timeout
        mine = [f for f in b['runtime_feedback'] if f['op'] == k]
        names = [f['exception_name'] for f in mine]
        if names != ['TimeoutError']:
            viol('T3-runtime-feedback-for-timed-out-op=%s' % '+'.join(str(n) for n in names) or 'none',
                 'at %s: feedback attributable to the timed-out execution: %s' % (b['label'], [(f['exception_name'], 'thread%s' % f['thread']) for f in mine]),
                 '/writer=%s' % ('student-thread' if any(f['thread'] not in (0, None) for f in mine) else 'grader'))
            break
        # T2: the sandbox's exception is the timeout until a later execution replaces it
        if next_exec is None or i < next_exec:
            sx = b['sb_exc']
            if sx is None or 'TimeoutError' not in sx['mro']:
                viol('T2-exception-is-not-timeout', 'at %s: sandbox.exception is %s' % (b['label'], sx and sx['cls']),
                     '/is=%s' % (sx and sx['cls']))
                break
        # (C05's timeout clause) when the timed-out call returns, nothing is borrowed any more and both stacks are empty
        if i == k and (tuple(b['stacks']) != (0, 0) or b['global_problems']):
            viol('T4-state-not-restored-when-the-timed-out-call-returns', 'patch stack %d, stdout stack %d, %s' % (
                b['stacks'][0], b['stacks'][1], b['global_problems'][:3]))
            break
        # T4a: the next execution starts from a clean patch state
        if i + 1 < len(obs) and obs[i + 1]['op'] in sbx.EXEC_OPS:
            if b.get('temporaries'):
                viol('T4-call-scaffolding-left-in-student-namespace', 'before op %d: %s still defined' % (i + 1, b['temporaries'][:3]))
                break
            if b['stacks'][0] != 0 or b['global_problems']:
                viol('T4-next-execution-starts-patched', 'before op %d: patch stack depth %d, %s' % (
                    i + 1, b['stacks'][0], b['global_problems'][:3]))
                break
    # T4: an abandoned thread whose program does not catch BaseException ends once the asynchronous exception has
    # landed in it (whatever it still prints on the way out is the listed window; going on forever is not)
    d0 = res.get('drained')
    if primary and d0 is not None and meta['cls'] not in IMMORTAL and d0.get('alive'):
        # (own events since the landing: a thread the schedule starved has not had the chance to unwind yet)
        own = {t[0]: t[2] for t in res['sched'].get('thread_states') or []}
        landed_in = {x[0]: x[6] for x in res['sched'].get('landings') or [] if len(x) > 6}
        survivors = sorted(t for t in d0['alive'] if t in landed_in and own.get(t, 0) - landed_in[t] > 300)
        # ... and a thread that the abandoned execution itself had started (threaded import of a second student file)
        # is given up on as well: nobody is left to wait for it
        sent_to = {int(t) for t in (res['sched'].get('thread_sent_site') or {})}
        orphans = sorted(t for t in d0['alive'] if t != 0 and t not in sent_to and own.get(t, 0) > 300)
        # (only once every abandoned thread has ended or had ample opportunity to: a starved waiter has not yet had
        # the chance to pass the termination on)
        waiters_had_their_chance = all(t not in d0['alive'] or (t in landed_in and own.get(t, 0) - landed_in[t] > 300)
                                       for t in sent_to)
        if orphans and sent_to and waiters_had_their_chance:
            viol('T4-thread-started-by-the-abandoned-execution-never-terminated',
                 'thread(s) %s (started by the timed-out execution, e.g. for a nested import) were never sent the asynchronous '
                 'exception and still run after the drain' % (orphans,))
        if survivors:
            viol('T4-abandoned-thread-survived-its-termination',
                 'thread(s) %s still run after the asynchronous exception landed in them (class %s does not catch BaseException)' % (
                     survivors, meta['cls']))
    if vs:
        return vs
    # ---- T4b: later executions equal the reference.  (Not after a LATER execution timed out: the reference ran
    # that execution to completion, the sandbox abandoned it, so their states are no longer comparable.)
    for i in (later_exec if primary else []):
        o = obs[i]
        op = spec['ops'][i]
        if o.get('escaped') is not None:
            e = o['escaped']
            viol('T4-later-execution-raised', 'op %d (%s) raised %s(%s) at %s' % (i, op['op'], e['cls'], e['str'][:60], e['where'][-2:]),
                 '/as=%s' % e['cls'])
            return vs
        sub = c06.judge({'ops': [op]}, {'obs': [dict(o, index=i)]})
        for v in sub:
            viol('T4-later-execution-altered', v['detail'], '/' + v['sig'].split('/')[1])
        if sub:
            return vs
        cl = o.get('ctx_lookup')
        if cl is not None and not o.get('skipped'):
            if cl.get('error'):
                viol('T4-later-result-has-no-execution-record', 'op %d: looking up the execution behind the returned value raised %s' % (i, cl['error']))
                return vs
            if not cl.get('is_newest') or (op['op'] == 'call' and cl.get('called') != op['fn']):
                viol('T4-later-result-points-to-another-execution', 'op %d (%s): the returned value is attributed to %r' % (
                    i, op.get('fn') or op.get('expr'), cl))
                return vs
        ctxs = o.get('new_contexts') or []
        if ctxs and o.get('raw_delta') is not None and o['raw_delta'] != ctxs[-1]['output']:
            viol('T4-later-output-altered', 'op %d: raw_output grew by %r but the execution wrote %r' % (
                i, o['raw_delta'][-60:], ctxs[-1]['output'][-60:]))
            return vs
        if o.get('raw_delta') is None:
            viol('T4-later-output-altered', 'op %d: raw_output was rewritten, not extended' % i)
            return vs
        rt = [f for f in o['new_feedback'] if f['category'] == 'runtime']
        want = 0 if (o.get('ref') or {}).get('outcome') is None else 1
        if len(rt) != want:
            viol('T4-later-feedback-count', 'op %d: %d runtime feedback, expected %d' % (i, len(rt), want))
            return vs
    # ---- after the drain
    d = res.get('drained')
    if d is not None:
        mine = [f for f in d['runtime_feedback'] if f['op'] == k]
        names = [f['exception_name'] for f in mine]
        if names != ['TimeoutError']:
            viol('T3-runtime-feedback-for-timed-out-op=%s' % '+'.join(str(n) for n in names),
                 'after drain: feedback attributable to the timed-out execution: %s' % ([(f['exception_name'], 'thread%s' % f['thread']) for f in mine],),
                 '/writer=%s/late' % ('student-thread' if any(f['thread'] not in (0, None) for f in mine) else 'grader'))
        elif not later_exec and (d['sb_exc'] is None or 'TimeoutError' not in d['sb_exc']['mro']):
            viol('T2-exception-is-not-timeout', 'after drain: sandbox.exception is %s' % (d['sb_exc'] and d['sb_exc']['cls']),
                 '/is=%s/late' % (d['sb_exc'] and d['sb_exc']['cls']))
        elif d['stacks'] != (0, 0) and tuple(d['stacks']) != (0, 0):
            viol('T4-stacks-not-empty-after-drain', 'patch stack %d, stdout stack %d; threads alive %s' % (
                d['stacks'][0], d['stacks'][1], d['alive']))
        elif d['global_problems']:
            viol('T4-globals-not-restored-after-drain', ', '.join(d['global_problems'][:3]))
        else:
            # the abandoned thread must not have changed what later executions recorded
            last = obs[-1]
            if not primary:
                pass
            elif later_exec and d['raw_output'] != last['raw_output']:
                viol('T4-output-altered-after-the-fact', 'raw_output changed during drain: %r -> %r' % (
                    last['raw_output'][-50:], d['raw_output'][-50:]))
            elif later_exec and d['contexts'][:len(last['contexts'])] != last['contexts'] and \
                    [list(c) for c in d['contexts'][:len(last['contexts'])]] != [list(c) for c in last['contexts']]:
                viol('T4-records-altered-after-the-fact', 'an execution record changed during drain')
    return vs


def run_task(task):
    out = {'runs': 0, 'violations': [], 'counters': {}, 'sets': {'distinct_nontrivial': [], 'digests': [], 'landing_sites': [],
                                                                 'end_states': []},
           'samples': [], 'harness': [], 'virtual_s': 0.0}
    cnt = out['counters']

    def bump(name, n=1):
        cnt[name] = cnt.get(name, 0) + n

    for sd in task['seeds']:
        spec = build(sd, task['tier'])
        if spec.get('calibrate') is not None:
            probe = dict(spec, allowed_time=60.0)
            pres = world.fork_run(execute, probe, timeout=90)
            out['runs'] += 1
            done = (pres['sched'].get('thread_done_at') or {}).get(1)
            joined = pres['sched']['probe'].get('first_timed_join_at')
            delta = spec.pop('calibrate')
            if done is not None and joined is not None and done - joined - delta > 0.002:
                spec['allowed_time'] = round(done - joined - delta, 6)
                spec['meta']['placement'] = 'calibrated-to-natural-end'
        res = world.fork_run(execute, spec, timeout=90)
        out['runs'] += 1
        out['virtual_s'] += res.get('virtual_s', 0.0)
        out['sets']['digests'].append(res['digest'])
        vs = judge(spec, res)
        for v in vs:
            v['spec'] = spec
            out['violations'].append(v)
        meta = spec['meta']
        sc = res['sched']
        ok = res['obs'][meta['k']] if len(res['obs']) > meta['k'] else {}
        fired = ok.get('async_sent', 0) >= 1
        if ok.get('timer_fired', 0) >= 1 and not fired:
            bump('probe:join_expired_but_thread_finished_before_pedal_looked')
        bump('class:%s' % meta['cls'])
        bump('policy:%s' % meta['policy'])
        bump('placement:%s' % meta['placement'])
        bump('events_total', sc['events'])
        bump('preemptions_total', sc['n_switches'])
        if fired:
            bump('fault_fired:timer')
            out['sets']['distinct_nontrivial'].append(res['digest'])
        else:
            bump('timer_not_fired')
        bump('fault_fired:async_exception_sent', sc['async_sent'])
        for x in sc['landings']:
            bump('fault_fired:async_exception_landed')
            out['sets']['landing_sites'].append('%s:%s:%s' % (x[2], x[3], x[4]))
            if x[2] in ('answer.py', 'helper.py'):
                bump('probe:async_landed_in_student_code')
            elif x[3] in ('_start_mocking', '_start_patches', '_reset_builtins', '_mock_builtins', '_track_inputs', 'mock_function'):
                bump('probe:async_landed_in_pedal_setup')
            elif x[3] in ('_stop_mocking', '_stop_patches', 'append_output', '_capture_exception'):
                bump('probe:async_landed_in_pedal_cleanup_or_recorder')
            else:
                bump('probe:async_landed_elsewhere_in_pedal')
        if meta['policy'] == 'zombie-late' and fired:
            bump('fault_fired:zombie_frozen_then_released')
        if meta['policy'] == 'stall':
            bump('fault_fired:stall')
        if sc['clock_jumps']:
            bump('clock_jumps', sc['clock_jumps'])
        if sc['async_sent'] and not sc['landings']:
            bump('probe:async_never_delivered')
        if fired and spec['meta']['placement'] in ('near-natural-end', 'calibrated-to-natural-end'):
            bump('probe:timer_fired_near_natural_end')
        if sc['probe'].get('student_blocked'):
            bump('probe:student_thread_blocked_in_wait')
        d = res.get('drained') or {}
        if d.get('zombie_events'):
            bump('probe:abandoned_thread_ran_during_drain')
        if any(o.get('op') == 'idle' and o.get('zombie_events') for o in res['obs']):
            bump('probe:abandoned_thread_ran_between_ops')
        if d.get('alive'):
            bump('probe:thread_still_alive_after_drain')
        out['sets']['end_states'].append('|'.join(sorted(set(v['sig'].split('/')[1] for v in vs))) or 'clean')
        if fired and len(out['samples']) < 1:
            out['samples'].append({'class': meta['cls'], 'policy': meta['policy'], 'sched_params': spec['sched']['params'],
                                   'allowed_time': spec['allowed_time'], 'placement': meta['placement'], 'ops': spec['ops'],
                                   'events': sc['events'], 'preemptions': sc['n_switches'], 'landings': sc['landings'],
                                   'verdict': [v['sig'] for v in vs] or 'held'})
    return out


def shrink_moves(spec):
    import copy
    k = spec['meta']['k']
    ops = spec['ops']
    for i in reversed(range(k + 1, len(ops))):
        c = copy.deepcopy(spec)
        del c['ops'][i]
        yield c
    for pol in ('g-first', 'sticky', 's-first'):
        if spec['sched']['policy'] != pol:
            c = copy.deepcopy(spec)
            c['sched'] = {'policy': pol, 'seed': 1, 'params': {'async_delay': 0}}
            c['meta']['policy'] = pol
            yield c
    if spec['config'].get('tracer') != 'none':
        c = copy.deepcopy(spec)
        c['config']['tracer'] = 'none'
        yield c
    if spec.get('instruction_level'):
        c = copy.deepcopy(spec)
        del c['instruction_level']
        yield c
    for i, o in enumerate(ops):
        if o.get('inputs') and i > k:
            c = copy.deepcopy(spec)
            c['ops'][i].pop('inputs')
            yield c
        if o.get('threaded') and i > k:
            c = copy.deepcopy(spec)
            c['ops'][i].pop('threaded')
            yield c


def evidence_extra(agg):
    return {'fault_kinds_fired': {k.split(':', 1)[1]: v for k, v in agg.counters.items() if k.startswith('fault_fired:')},
            'distinct_interleavings_by_event_log_digest': len(agg.sets.get('digests', ())),
            'distinct_async_landing_sites': len(agg.sets.get('landing_sites', ())),
            'distinct_end_state_signatures': len(agg.sets.get('end_states', ())),
            'simulated_events': agg.counters.get('events_total', 0)}


def probe_warnings(agg):
    ps = ['probe:async_landed_in_student_code', 'probe:async_landed_in_pedal_setup', 'probe:async_landed_in_pedal_cleanup_or_recorder',
          'probe:timer_fired_near_natural_end', 'probe:abandoned_thread_ran_during_drain', 'probe:abandoned_thread_ran_between_ops',
          'probe:student_thread_blocked_in_wait', 'probe:async_never_delivered']
    out = ['%s never hit' % p for p in ps if agg.counters.get(p, 0) == 0]
    if agg.counters.get('fault_fired:timer', 0) == 0:
        out.append('the join timer never fired: seam dead?')
    return out
