"""Engine ``sbx``: one sandbox, one logical thread, an op history with synchronous faults.

``execute(spec)`` runs inside a forked child of the pristine template.  It drives the
real pedal sandbox through its public commands, runs the plain-CPython reference
executor alongside (same inputs, same injected fault), snapshots process-global state
around every op, and returns plain-data observations that the check modules judge.

spec = {
  'files': {'answer.py': src, ...}, 'main': 'answer.py',
  'config': {'tracer': 'none'|'native'|'calls'|'coverage', 'ref': bool, 'data': bool},
  'ops': [ {'op': 'run'|'call'|'evaluate'|'set_input'|'queue_input'|'clear_input'|'clear_output', ...,
            'fault': {'kind':..., 'k':..., 'exc':...} | None, 'threaded': bool } ... ]
}
"""
import copy
import sys
import traceback

from sim import world
from sim.monitor import MONITOR
from sim.refexec import RefExecutor, canon, safe_str, student_line

EXEC_OPS = ('run', 'call', 'evaluate')
INSTRUCTOR_FILE = 'instructor.py'


_SR = []


def _ambient_trace(frame, event, arg):
    return None


def unwrap(x):
    if not _SR:
        from pedal.sandbox.result import SandboxResult
        _SR.append(SandboxResult)
    SandboxResult = _SR[0]
    n = 0
    while type(x) is SandboxResult and n < 5:
        x = x._actual_value
        n += 1
    return x


def op_args(op, fn_resolver=None, ret_resolver=None):
    """fresh argument objects for every use; '@fn:name' stands for a student function handed back as a callback,
    '@ret:i' for what the call of op i returned (instructors pass results of earlier calls on as arguments)"""
    if 'args_src' in op:
        return [fn_resolver(src[4:]) if src.startswith('@fn:') else
                ret_resolver(int(src[5:])) if src.startswith('@ret:') else eval(src, {'__builtins__': __builtins__})
                for src in op['args_src']]
    return copy.deepcopy(list(op.get('args', ())))


def feedback_record(fb):
    rec = {'cls': type(fb).__name__, 'mro': [c.__name__ for c in type(fb).__mro__]}
    for attr in ('category', 'label', 'title', 'kind', 'priority', 'muted', '_status'):
        try:
            v = getattr(fb, attr, None)
            rec[attr] = v if isinstance(v, (str, int, float, bool, type(None))) else repr(v)
        except BaseException as e:
            rec[attr] = '<raised %s>' % type(e).__name__
    try:
        fields = fb.fields or {}
    except BaseException:
        fields = {}
    rec['exception_name'] = fields.get('exception_name') if isinstance(fields.get('exception_name'), str) else None
    exc = fields.get('exception')
    rec['field_exception_cls'] = type(exc).__name__ if exc is not None else None
    loc = getattr(fb, 'location', None)
    rec['line'] = getattr(loc, 'line', None) if loc is not None else None
    rec['loc_filename'] = getattr(loc, 'filename', None) if loc is not None else None
    tbm = fields.get('traceback_message')
    rec['traceback_message'] = tbm if isinstance(tbm, str) else None
    try:
        stack = fields.get('traceback_stack') or []
        rec['tb_lines'] = [(getattr(fr, 'filename', None), getattr(fr, 'lineno', None)) for fr in stack if fr is not None]
    except BaseException:
        rec['tb_lines'] = None
    msg = getattr(fb, 'message', None)
    rec['message'] = msg if isinstance(msg, str) else repr(msg)
    parent = getattr(fb, 'parent', None)
    rec['parent'] = type(parent).__name__ if parent is not None else None
    return rec


def exc_record(e, student_files):
    e = unwrap(e)
    if e is None:
        return None
    loc = student_line(e, student_files) if isinstance(e, BaseException) else None
    return {'cls': type(e).__name__, 'mro': [c.__name__ for c in type(e).__mro__],
            'module': type(e).__module__,
            'str': safe_str(e), 'line': loc[1] if loc else None, 'file': loc[0] if loc else None,
            'is_exception': isinstance(e, BaseException)}


def student_data(sandbox):
    out = {}
    for k, v in sandbox.data.items():
        if k.startswith('__') and k.endswith('__'):
            continue
        try:
            out[k] = canon(unwrap(v))
        except BaseException as e:
            out[k] = ('uncanon', type(e).__name__)
    return out


class SbxRun:
    def __init__(self, spec):
        self.spec = spec
        self.files = dict(spec['files'])
        self.main = spec.get('main', 'answer.py')
        self.cfg = spec.get('config', {})
        self.student_files = frozenset(self.files)
        self.obs = []
        self.console = None

    def setup(self):
        from pedal.core.report import MAIN_REPORT
        from pedal.core.submission import Submission
        from pedal.sandbox.commands import get_sandbox
        from pedal.sandbox import commands as C
        self.C = C            # bound now: after a leaked sys.modules patch nothing in pedal can be imported
        unwrap(None)
        self.console = world.install_console()
        world.install_virtual_time()
        data_files = {n: t for n, t in self.files.items() if not n.endswith('.py')}
        if data_files:
            # data files of the submission also exist on disk (in a private directory), for the plain-CPython reference
            import os
            d = '/tmp/verif-cwd-%d' % os.getpid()
            os.makedirs(d, exist_ok=True)
            os.chdir(d)
            for n, t in data_files.items():
                with open(os.path.join(d, n), 'w') as fh:
                    fh.write(t)
        MAIN_REPORT.clear()
        sub = Submission(files=dict(self.files), main_file=self.main, instructor_file=INSTRUCTOR_FILE)
        MAIN_REPORT.contextualize(sub)
        self.report = MAIN_REPORT
        self.sandbox = get_sandbox()
        tracer = self.cfg.get('tracer', 'none')
        if tracer != 'none':
            self.sandbox.tracer_style = tracer
        if self.cfg.get('allow_print'):
            # print() is allowed to reach the real console as well: pedal then captures through PrintingStringIO
            self.sandbox.allow_function('print')
        for name in self.cfg.get('block_modules') or ():
            self.sandbox.block_module(name)           # an instructor forbidding a module the programs may or may not use
        if self.cfg.get('full_traceback'):
            self.sandbox.full_traceback = True        # pedal's own frames stay in the rendered traceback
        if 'max_temp' in self.cfg:
            self.sandbox.MAXIMUM_TEMPORARY_LENGTH = self.cfg['max_temp']
        MONITOR.configure(student_files=self.student_files, instructor_files=[INSTRUCTOR_FILE],
                          pedal_only=self.cfg.get('pedal_only'))
        if self.cfg.get('ambient_trace'):
            # a trace function that was installed before pedal was called (a debugger, a coverage run of the grader
            # itself): "restored" then means this very function, not None
            sys.settrace(_ambient_trace)
        MONITOR.begin(digest=self.cfg.get('digest', True), sites=self.cfg.get('sites', False))
        self.ref = RefExecutor(self.files, self.main) if self.cfg.get('ref') else None
        self.sched = None
        self.raw_rets, self.ref_rets, self.ok_rets = {}, {}, {}
        if self.cfg.get('sandbox_threaded'):
            # the instructor switched the sandbox itself to threaded mode: every execution AND every nested import
            # of a student file gets its own thread (all of them finish far inside the limit here)
            self.sandbox.threaded = True
        if self.cfg.get('sched') or self.cfg.get('sandbox_threaded') or any(o.get('threaded') for o in self.spec['ops']):
            import random
            from sim.sched import Scheduler
            sc = self.cfg.get('sched') or {}
            self.sched = Scheduler(policy=sc.get('policy', 'sticky'), rng=random.Random(sc.get('seed', 1)),
                                   tick=sc.get('tick', 0.0001), forced=sc.get('forced'), params=sc.get('params'))
            self.sched.activate()

    # ---------------------------------------------------------------- ops
    def do_op(self, index, op):
        kind = op['op']
        sb = self.sandbox
        C = self.C
        o = {'op': kind, 'index': index}
        if kind not in EXEC_OPS:
            if kind == 'set_input':
                C.set_input(op['value'], clear=op.get('clear', True))
                if self.ref:
                    v = op['value']
                    vals = [v] if isinstance(v, (str, int, float, bool)) else list(v or [])
                    if op.get('clear', True) or v is None:
                        self.ref.queue = []
                    self.ref.queue.extend(str(x) for x in vals)
            elif kind == 'queue_input':
                C.queue_input(*op['values'])
                if self.ref:
                    self.ref.queue.extend(str(x) for x in op['values'])
            elif kind == 'clear_input':
                C.clear_input()
                if self.ref:
                    self.ref.queue = []
            elif kind == 'clear_output':
                C.clear_output()
            else:
                raise world.HarnessError('unknown op %r' % (kind,))
            o.update(self.io_state())
            if self.ref is not None:
                o['ref_queue'] = list(self.ref.queue)
            return o

        fault = op.get('fault')
        inputs = op.get('inputs') if kind != 'evaluate' else None     # evaluate() takes no inputs
        # ---- reference first (same inputs, same fault)
        refres = None
        use_ref = self.ref is not None and not op.get('noref')
        if use_ref and kind == 'call' and not (callable(self.ref.ns.get(op['fn'])) and callable(sb.data.get(op['fn']))):
            # pedal's call() returns early (nothing is executed, inputs are not queued) when the
            # function does not exist -- e.g. an earlier run crashed before defining it
            use_ref = False
            o['skipped'] = 'no-such-function'
        wanted = [int(a[5:]) for a in op.get('args_src', ()) if isinstance(a, str) and a.startswith('@ret:')]
        if wanted and any(self.ok_rets.get(i) is not True for i in wanted):
            # the earlier call whose result is passed on did not produce one (it failed on one side or the other)
            use_ref = False
            o['skipped'] = 'no-such-result'
            o['not_executed'] = True
            o['escaped'] = None
            o['new_contexts'] = []
            o['new_feedback'] = []
            o.update(self.io_state())
            if self.ref is not None:
                o['ref_queue'] = list(self.ref.queue)
            return o
        if use_ref and kind in ('evaluate', 'run') and (op.get('expr') or op.get('code')):
            # instructor code that uses student functions: only meaningful when they exist on both sides
            try:
                names = set(compile(op.get('expr') or op.get('code'), '<names>', 'exec').co_names)
            except SyntaxError:
                names = set()
            import builtins as _b
            missing = [n for n in names if n in self.ref.ns and n not in sb.data and not hasattr(_b, n)]
            if missing:
                use_ref = False
                o['skipped'] = 'no-such-function'
        if self.ref is not None and op.get('noref') and inputs is not None:
            self.ref.set_inputs(inputs if isinstance(inputs, (list, tuple)) else [inputs])
        def do_ref():
            if inputs is not None:
                self.ref.set_inputs(inputs if isinstance(inputs, (list, tuple)) else [inputs])
            rfault = fault if (fault and fault.get('kind') == 'sync_student' and not op.get('nomirror')) else None
            if kind == 'run' and (op.get('before') is not None or op.get('after') is not None):
                # run(before=..., after=...): up to three executions in a row, each with its own record
                multi = []
                if op.get('before') is not None:
                    multi.append(self.ref.run(op['before'], None))
                multi.append(self.ref.run(op.get('code'), op.get('filename'), fault=rfault))
                refres = dict(multi[-1])
                if op.get('after') is not None:
                    multi.append(self.ref.run(op['after'], None))
                for m_ in multi:
                    m_.pop('value', None)
                o['ref_multi'] = multi
            elif kind == 'run':
                refres = self.ref.run(op.get('code'), op.get('filename'), fault=rfault)
            elif kind == 'call':
                rargs = op_args(op, lambda n: self.ref.ns[n], self.ref_rets.get)
                rkw = copy.deepcopy(dict(op.get('kwargs', {})))
                rkw.update(copy.deepcopy(op.get('function_kwargs') or {}))
                kwl = op.get('kwargs_locals') or {}
                for key in kwl:
                    rkw.setdefault(key, None)       # pedal takes the local expression for keys that are also given a value
                refres = self.ref.call(op['fn'], tuple(rargs), rkw, fault=rfault,
                                       args_locals=op.get('args_locals'), kwargs_locals=kwl)
            else:
                refres = self.ref.evaluate(op['expr'], fault=rfault)
            rv = refres.pop('value')
            self.ref_rets[index] = rv
            self.ok_rets[index] = (kind == 'call' and refres['outcome'] is None and escaped is None
                                   and sb.exception is None and ret is not None)
            try:
                refres['value_canon'] = canon(rv)
            except BaseException as e:
                refres['value_canon'] = ('uncanon', type(e).__name__)
            if self.cfg.get('data'):
                refres['names'] = {k: canon(v) for k, v in self.ref.student_names().items()}
            o['ref'] = refres

        if o.get('skipped') and kind != 'call':
            o.update(self.io_state())
            o['escaped'] = None
            o['new_contexts'] = []
            o['new_feedback'] = []
            o['not_executed'] = True
            return o
        # ---- the real thing
        before = world.snapshot_globals()
        n_fb = len(self.report.feedback)
        n_ig = len(self.report.ignored_feedback)
        n_ctx = len(sb._context)
        raw_before = sb.raw_output
        out_before = list(sb.output)
        console_before = self.console[0].getvalue()
        MONITOR.reset_counts()
        fired_before = len(MONITOR.fired)
        MONITOR.arm(fault)
        escaped = None
        ret = None
        try:
            try:
                if kind == 'run':
                    ret = C.run(code=op.get('code'), filename=op.get('filename'), inputs=inputs,
                                threaded=op.get('threaded'), before=op.get('before'), after=op.get('after'))
                elif kind == 'call':
                    ret = C.call(op['fn'], *op_args(op, sb.get_function, self.raw_rets.get), inputs=inputs, threaded=op.get('threaded'),
                                 target=op.get('target', '_'), args_locals=op.get('args_locals'),
                                 function_kwargs=copy.deepcopy(op.get('function_kwargs')),
                                 kwargs_locals=dict((k, v) for k, v in (op.get('kwargs_locals') or {}).items()) or None,
                                 **dict(copy.deepcopy(op.get('kwargs', {})), **{k: None for k in (op.get('kwargs_locals') or {})}))
                else:
                    ret = C.evaluate(op['expr'], threaded=op.get('threaded'), **({'target': op['target']} if op.get('target') else {}))
            finally:
                MONITOR.arm(None)
        except BaseException as e:   # noqa: the harness must see everything that escapes
            tb = traceback.extract_tb(e.__traceback__)
            escaped = {'cls': type(e).__name__, 'str': safe_str(e),
                       'where': ['%s:%s:%d' % (fr.filename.rsplit('/', 1)[-1], fr.name, fr.lineno) for fr in tb[-4:]],
                       'pedal_frames': [fr.name for fr in tb if '/pedal/' in fr.filename]}
        o['escaped'] = escaped
        self.raw_rets[index] = ret
        o['nS'], o['nI'], o['nP'] = MONITOR.nS, MONITOR.nI, MONITOR.nP
        o['fired'] = [dict(f) for f in MONITOR.fired[fired_before:]]
        o['fault_matches'] = MONITOR.last_count
        problems, tolerated = world.diff_globals(before, sb)
        o['global_problems'] = problems
        o['tolerated_modules'] = tolerated
        o['stacks'] = (len(sb._current_patches), len(sb._current_stdout))
        o['sb_exc'] = exc_record(sb.exception, self.student_files)
        o['sb_feedback_is_new'] = sb.feedback is not None and any(sb.feedback is f for f in self.report.feedback[n_fb:])
        o['new_feedback'] = [feedback_record(f) for f in self.report.feedback[n_fb:]]
        o['new_ignored'] = [feedback_record(f) for f in self.report.ignored_feedback[n_ig:]]
        o['new_contexts'] = [{'output': c.output, 'inputs': list(c.inputs) if isinstance(c.inputs, list) else repr(c.inputs),
                              'kind': c.kind} for c in sb._context[n_ctx:]]
        o['raw_delta'] = sb.raw_output[len(raw_before):] if sb.raw_output.startswith(raw_before) else None
        o['out_delta'] = sb.output[len(out_before):] if sb.output[:len(out_before)] == out_before else None
        o.update(self.io_state())
        if self.ref is not None:
            o['ref_queue'] = list(self.ref.queue)
        o['console_delta'] = self.console[0].getvalue()[len(console_before):]
        if kind == 'run':
            o['returned_self'] = ret is sb
        else:
            # the returned proxy remembers which execution produced it: that record must exist and be this one
            try:
                from_ctx = sb.get_context(ret._actual_context_id) if type(ret) is _SR[0] else None
                if from_ctx is None:
                    o['ctx_lookup'] = None
                else:
                    c = from_ctx[-1]
                    o['ctx_lookup'] = {'kind': c.kind, 'called': c.called, 'code': c.code[:80],
                                       'is_newest': bool(sb._context) and c is sb._context[-1]}
            except BaseException as e:
                o['ctx_lookup'] = {'error': type(e).__name__}
            r = unwrap(ret)
            if isinstance(r, BaseException):
                o['ret'] = ('exception', type(r).__name__)
            else:
                try:
                    o['ret'] = ('value', canon(r))
                except BaseException as e:
                    o['ret'] = ('uncanon', type(e).__name__)
        if self.cfg.get('data'):
            o['names'] = student_data(sb)
            o['temporaries'] = sorted(k for k in sb.data if k.startswith('_temporary_'))
        # The reference runs AFTER the sandbox (its result is only needed for judging): whatever the reference
        # imports or caches process-wide must not pave the way for the sandbox, e.g. a submodule that is loaded
        # for the first time by this very program.
        if use_ref:
            do_ref()
        if self.ref is not None:
            o['ref_queue'] = list(self.ref.queue)
        return o

    def io_state(self):
        sb = self.sandbox
        return {'raw_output': sb.raw_output, 'output': list(sb.output),
                'inputs': list(sb.inputs) if isinstance(sb.inputs, list) else repr(sb.inputs),
                'contexts': [(c.output, list(c.inputs) if isinstance(c.inputs, list) else None) for c in sb._context]}

    def run(self):
        self.setup()
        try:
            for i, op in enumerate(self.spec['ops']):
                self.obs.append(self.do_op(i, op))
        finally:
            if self.sched is not None:
                self.sched.deactivate()
            MONITOR.end()
            if self.cfg.get('ambient_trace'):
                sys.settrace(None)
        return {'obs': self.obs, 'digest': MONITOR.digest(),
                'sched': None if self.sched is None else {
                    'events': self.sched.nevents, 'threads': len(self.sched.threads), 'joins': self.sched.joins,
                    'timer_fired': self.sched.timer_fired, 'deadlock': self.sched.deadlock},
                'sites': sorted(MONITOR.sites) if MONITOR.sites is not None else None,
                'virtual_s': world.CLOCK.now - 1_000_000.0}


def execute(spec):
    return SbxRun(spec).run()
