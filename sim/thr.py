"""Engine ``thr``: engine ``sbx`` plus the thread scheduler, virtual timer and the simulated
asynchronous exception -- for threaded executions that exceed the time limit (C14) and
the timeout clause of C05.

spec (in addition to the sbx fields):
  'allowed_time': float (virtual seconds), 'sched': {'policy', 'seed', 'tick', 'params', 'forced'},
  'ref_prelude': source executed in the reference namespace at setup (when op 1 cannot be run by the
                 reference because it does not terminate), ops may be {'op': 'idle', 'seconds': x}
"""
import os
import random
import sys
import threading

from sim import sbx, world
from sim.monitor import MONITOR
from sim.sched import Scheduler, SimDeadlock


class ThrRun(sbx.SbxRun):
    def setup(self):
        spec = self.spec
        cfg = self.cfg
        sc = dict(spec.get('sched') or {})
        cfg = dict(cfg)
        cfg['sched'] = None
        self.cfg = cfg
        super().setup()
        # the scheduler proper
        self.sched = Scheduler(policy=sc.get('policy', 'sticky'), rng=random.Random(sc.get('seed', 1)),
                               tick=sc.get('tick', 0.001), forced=sc.get('forced'), params=sc.get('params'))
        self.sched.activate()
        self.sandbox.allowed_time = spec.get('allowed_time', 3)
        if spec.get('sandbox_threaded'):
            # what environments do (student.threaded = True): executions default to threaded, and a student file
            # imported by student code is executed in yet another interruptable thread with its own limit
            self.sandbox.threaded = True
        if spec.get('instruction_level'):
            import pedal.sandbox.sandbox as S
            import pedal.sandbox.timeout as T
            codes = []
            for obj in (S.Sandbox, T.InterruptableThread):
                for name, f in vars(obj).items():
                    co = getattr(f, '__code__', None) or getattr(getattr(f, '__func__', None), '__code__', None)
                    if co is not None and name in spec['instruction_level']:
                        codes.append(co)
            if 'timeout' in spec['instruction_level']:
                codes.append(T.timeout.__code__)
            MONITOR.enable_instructions(codes)
        if self.ref is not None and spec.get('ref_prelude'):
            self.ref.run(spec['ref_prelude'], 'answer.py')
            self.ref.events = []
        # tag every feedback with (creating thread, op index)
        self.tags = {}
        from pedal.core.report import Report
        orig_add = Report.add_feedback
        run = self

        def tagging_add(rep, feedback):
            st = run.sched.current
            idx = st.index if st is not None else -1
            op = run.sched.op_index if idx == 0 else (st.op_born if st is not None else None)
            run.tags[id(feedback)] = (idx, op)
            return orig_add(rep, feedback)
        Report.add_feedback = tagging_add
        self._orig_add = orig_add
        self.snapshot0 = world.snapshot_globals()
        self.boundaries = []

    def boundary(self, label):
        sb = self.sandbox
        problems, tolerated = world.diff_globals(self.snapshot0, sb)
        fbs = []
        for f in self.report.feedback:
            if getattr(f, 'category', None) == 'runtime':
                t = self.tags.get(id(f), (None, None))
                fields = getattr(f, 'fields', None) or {}
                fbs.append({'cls': type(f).__name__, 'exception_name': fields.get('exception_name'),
                            'thread': t[0], 'op': t[1]})
        rec = {'label': label, 'sb_exc': sbx.exc_record(sb.exception, self.student_files),
               'stacks': (len(sb._current_patches), len(sb._current_stdout)), 'global_problems': problems,
               'runtime_feedback': fbs, 'alive': [t.index for t in self.sched.alive()],
               'events': self.sched.nevents, 'now': world.CLOCK.now - 1_000_000.0,
               'raw_len': len(sb.raw_output),
               'temporaries': sorted(k for k in list(sb.data) if isinstance(k, str) and k.startswith('_temporary_'))}
        self.boundaries.append(rec)
        return rec

    def do_op(self, index, op):
        if op['op'] == 'idle':
            # the instructor script does something else for a while: other threads may run
            self.sched.op_index = index
            me = self.sched.current
            me.state = 'sleeping'
            me.wake_at = world.CLOCK.now + op['seconds']
            before = self.sched.nevents
            try:
                self.sched.park(me)
                dl = None
            except SimDeadlock as e:
                dl = str(e)
            o = {'op': 'idle', 'index': index, 'zombie_events': self.sched.nevents - before, 'deadlock': dl}
            o.update(self.io_state())
            self.boundary('after-op-%d' % index)
            return o
        self.sched.op_index = index
        g = self.sched.threads[0]
        ev0, timers0, now0 = g.events, self.sched.timer_fired, world.CLOCK.now
        land0 = len(self.sched.async_landings)
        sent0 = self.sched.async_sent_by_grader
        # when does the timer fire, in grader events?  the scheduler records it
        self.sched.probe.pop('timer_at', None)
        o = super().do_op(index, op)
        o['g_events'] = g.events - ev0
        o['timer_fired'] = self.sched.timer_fired - timers0
        o['virtual_elapsed'] = world.CLOCK.now - now0
        ta = self.sched.probe.get('timer_at')
        if ta is not None:
            o['g_events_after_timer'] = g.line_events - ta[0]
            o['virtual_after_timer'] = world.CLOCK.now - ta[1]
        o['async_sent'] = self.sched.async_sent_by_grader - sent0      # sends by the grader thread: "pedal gave up on this op"
        o['landings'] = [list(x) for x in self.sched.async_landings[land0:]]
        o['threads_alive_after'] = [t.index for t in self.sched.alive()]
        o['boundary'] = self.boundary('after-op-%d' % index)
        return o

    def run(self):
        self.setup()
        drained = None
        try:
            try:
                for i, op in enumerate(self.spec['ops']):
                    self.obs.append(self.do_op(i, op))
                # drain: every abandoned thread runs until done, blocked, or 5000 further events
                self.sched.op_index = len(self.spec['ops'])
                before = self.sched.nevents
                try:
                    self.sched.drain(self.spec.get('drain_budget', 5000))
                    dl = None
                except SimDeadlock as e:
                    dl = str(e)
                drained = self.boundary('after-drain')
                drained['zombie_events'] = self.sched.nevents - before
                drained['deadlock'] = dl
                drained.update(self.io_state())
                drained['console'] = self.console[0].getvalue()[-400:]
                drained['stderr'] = self.console[1].getvalue()[-600:]
            finally:
                from pedal.core.report import Report
                Report.add_feedback = self._orig_add
                if self.spec.get('instruction_level'):
                    MONITOR.disable_instructions()
                self.sched.deactivate()
        finally:
            MONITOR.end()
        s = self.sched
        return {'obs': self.obs, 'digest': MONITOR.digest(), 'drained': drained, 'boundaries': self.boundaries,
                'virtual_s': world.CLOCK.now - 1_000_000.0,
                'sched': {'events': s.nevents, 'threads': len(s.threads), 'joins': s.joins, 'timer_fired': s.timer_fired,
                          'async_sent': s.async_sent, 'landings': [list(x) for x in s.async_landings],
                          'switches': s.switch_list(), 'n_switches': len(s.switches), 'trace_len': len(s.trace),
                          'deadlock': s.deadlock, 'diverged': s.diverged, 'clock_jumps': s.clock_jumps,
                          'probe': dict(s.probe),
                          'thread_states': [(t.index, t.state, t.events, t.blocked_on) for t in s.threads],
                          'thread_born': {t.index: t.op_born for t in s.threads},
                          'thread_sent_site': {t.index: t.sent_site for t in s.threads if t.sent_site},
                          'thread_done_at': {t.index: (t.done_at - 1_000_000.0 if t.done_at else None) for t in s.threads}}}


def execute(spec):
    return ThrRun(spec).run()
