"""Op histories over one sandbox: the workload shared by C05, C06 and C15.

A history is a student submission (a fixed library of small I/O functions + a generated
part) and a seeded sequence of instructor operations on the sandbox, some of them with
one injected fault.  Everything is plain JSON.
"""
from sim import faults, progs

LIBRARY = [
    ['import sys'],
    ['def echo(x):', "    print('echo', x)", '    return x'],
    ['def ask(p):', '    v = input(p)', "    print('got', v)", '    return v'],
    ['def ask_twice():', "    a = input('<<pa>>')", "    b = input('<<pb>>')", '    return a + b'],
    ['def quiet(a, b):', '    return a + b'],
    ['def boom(n):', '    r = 10 // n', '    return r'],
    ['def chatty(n):', '    for i in range(n):', "        print('line', i)", '    return n'],
    ['def noeol(s):', "    print(s, end='')", '    return len(s)'],
    ['def blank():', '    print()', "    print('  ')", "    print('x  ')", '    return None'],
    ['def swallow(n):', '    try:', '        return 10 // n', '    except ZeroDivisionError:',
     "        print('caught')", '        return -1'],
    ['def writer(s):', '    sys.stdout.write(s)', '    return s'],
    ['def size(v):', '    return len(v)'],
    ['def ident(v):', '    return v'],
    ['def kw(a, b=2, c=3):', "    print(a, b, c, sep='|')", '    return a * 100 + b * 10 + c'],
    ['def mutate(lst):', '    lst.append(99)', '    return lst'],
    ['def init_state(v):', '    global state_box', '    state_box = [v, v]', '    return len(state_box)'],
    ['def read_state():', '    return state_box[0]'],
    ['def apply_fn(f, x):', "    print('applying')", '    r = f(x, x)', "    print('applied')", '    return r'],
    ['counter = 0'],
    ['def tick():', '    global counter', '    counter += 1', '    return counter'],
    # callables that are not plain functions: instructors call() these by name all the same
    ['import functools'],
    ['biggest = max'],
    ['add_ten = functools.partial(quiet, 10)'],
    ['@functools.lru_cache(maxsize=None)', 'def cached_sq(n):', "    print('computing', n)", '    return n * n'],
    ['class Acc:', '    def __init__(self):', '        self.total = 0', '    def add(self, n):', '        self.total += n',
     '        return self.total'],
    ['acc_add = Acc().add'],
    # input() reached through a name bound in an EARLIER execution
    ['read = input'],
    ['def ask_alias(p):', '    v = read(p)', "    print('alias', v)", '    return v'],
    # results that instructors pass on to another call: an ordinary object, and one whose repr is broken
    ['def make_acc(n):', '    a = Acc()', '    a.add(n)', '    return a'],
    ['def use_acc(a):', "    return type(a).__name__ + ':' + ','.join([str(a.total + 1), 'y']) + ':' + str(isinstance(a, Acc))"],
    ['class Grumpy:', '    def __init__(self):', '        self.mood = 3', '    def __repr__(self):', "        raise ValueError('no repr today')"],
    ['class Card:', '    def __init__(self, rank):', '        self.rank = rank', '    def __repr__(self):', '        return str(self.rank)'],
    ['def make_card(n):', '    return Card(n)'],
    ['def use_card(c):', '    return c.rank + 1'],
    ['def make_grumpy():', '    return Grumpy()'],
    ['def use_grumpy(g):', '    return g.mood + 1'],
]

LIB_FUNCS = {
    # name: list of argument generators (kinds)
    'echo': ['any'], 'ask': ['prompt'], 'ask_twice': [], 'quiet': ['int', 'int'], 'boom': ['int0'],
    'chatty': ['small'], 'noeol': ['str'], 'blank': [], 'swallow': ['int0'], 'writer': ['str'],
    'size': ['seq'], 'ident': ['any'], 'mutate': ['list'], 'tick': [], 'kw': ['int'], 'init_state': ['int'], 'read_state': [],
    'biggest': ['int', 'int'], 'add_ten': ['int'], 'cached_sq': ['small'], 'acc_add': ['int'],
    'make_acc': ['int'], 'ask_alias': ['prompt'], 'make_card': ['int'],
}
# (consumer, producer): the consumer is called with what an earlier call of the producer returned
RESULT_CHAINS = [('use_acc', 'make_acc'), ('use_grumpy', 'make_grumpy'), ('ident', 'make_acc'), ('size', 'mutate'),
                 ('use_card', 'make_card')]      # an object whose repr reads like a number


EXOTIC = ("float('inf')", "float('nan')", "[float('-inf')]")


def gen_arg(r, kind, exotic=True):
    """An argument as a Python *expression string* (evaluated freshly for the reference and for the
    sandbox, so the two never share a mutable object, and replay files stay plain JSON)."""
    if kind == 'int':
        return repr(r.choice([0, 1, 2, -1, 7, 10, 12345]))
    if kind == 'int0':
        return repr(r.choice([0, 1, 2, 5, 0, 3]))
    if kind == 'small':
        return repr(r.choice([0, 1, 2, 3]))
    if kind == 'prompt':
        return repr('<<q%d>>' % r.randint(1, 9))
    if kind == 'str':
        return r.choice(["''", "'a'", "'hello'", "'two\\nlines'", "'trail  '", "' lead'", "'x' * 30", "'tab\\t'",
                         '"quote\'q"', "'back\\\\slash'", "'Z' * 250", "'\\n'", "'end\\n'", "'{braces}'", "'%s %d'"])
    if kind == 'list':
        return r.choice(['[]', '[1]', '[1, 2, 3]', 'list(range(120))', "['a', 'b']", '[[1], [2, 3]]'])
    if kind == 'seq':
        return r.choice(["''", "'abc'", '[]', '[1, 2]', "'y' * 300", 'list(range(90))', '(1, 2)', "{'a': 1}", '{1, 2, 3}',
                         'range(4)', "b'bytes'"])
    # any
    pool = (['0', '1', '-5', '3.5', "'text'", "''", 'None', 'True', '[1, 2]', "(1, 'a')", "{'k': 1}", "'L' * 220",
                     'list(range(80))', "{'a': [1, 2], 'b': None}", '1e100', '-0.0', "'multi\\nline'", '[None, True]',
                     '2 ** 70', "float('inf')", "float('nan')", '{1, 2}', 'frozenset([3])', "b'raw'", '(1,)', '()',
                     '3 + 4j', 'range(3)', "{'long': 'v' * 300}", "[float('-inf')]", "'\\x00'", "'caf\\xe9'"])
    if not exotic:
        pool = [p for p in pool if p not in EXOTIC]
    return r.choice(pool)


def gen_snippet(r, idx):
    """instructor-supplied code for run(code=...)"""
    c = r.random()
    if c < 0.25:
        return "print('snippet %d')" % idx
    if c < 0.4:
        return "v%d = input('<<s%d>>')\nprint(v%d)" % (idx, idx, idx)
    if c < 0.5:
        return "z%d = 1" % idx
    if c < 0.6:
        return "print('a', end='')\nprint('b')"
    if c < 0.7:
        return "import sys\nsys.stdout.write('w%d')" % idx
    if c < 0.8:
        return "print()\nprint('')\nprint(' ')"
    if c < 0.9:
        return "for i in range(3):\n    print(i, end=' ')"
    return "print(echo(%d))" % idx


def gen_history(rngs, n_ops, fault_rate=0.3, fault_classes=None, io_ops=True, size=None, threaded_rate=0.0,
                exotic_args=True, before_after=False, nested_calls=False, extra_file=False):
    from sim import seeds
    r = rngs[seeds.OPS]
    rf = rngs[seeds.FAULTS]
    prog = progs.gen_program(rngs[seeds.PROGRAM], size=size if size is not None else r.randint(0, 5),
                             allow_input=True, planted_raise=r.random() < 0.15)
    stmts = [list(s) for s in LIBRARY] + prog['files']['answer.py']
    files = {'answer.py': stmts}
    if extra_file:
        # a second student file that the instructor runs by name: run(filename='extra.py')
        files['extra.py'] = [["print('extra file running')"], ['extra_value = %d' % r.randint(1, 9)],
                             ['def extra_fn(x):', "    print('extra_fn', x)", '    return x + extra_value'],
                             ["entered = input('<<x1>>')" if r.random() < 0.5 else 'entered = None'], ['print(extra_fn(1), entered)']]
    fault_classes = fault_classes or faults.ALL
    ops = []
    ran = False
    for i in range(n_ops):
        c = r.random()
        if not ran and (c < 0.6 or i == 0):
            op = {'op': 'run'}
            if r.random() < 0.5:
                op['inputs'] = [r.choice(['1', '22', 'abc', '', ' spaced ', 'caf\xe9', 'tab\tin', 'x' * 120]) for _ in range(r.randint(0, 3))]
            ran = True
        elif c < 0.12:
            op = {'op': 'run'}
            if r.random() < 0.3:
                op['inputs'] = [r.choice(['1', 'x']) for _ in range(r.randint(0, 2))]
        elif extra_file and c < 0.16:
            op = {'op': 'run', 'filename': 'extra.py'}
        elif c < 0.28:
            op = {'op': 'run', 'code': gen_snippet(r, i)}
            if before_after and r.random() < 0.3:
                if r.random() < 0.7:
                    op['before'] = r.choice(["print('before')", "pre_marker = 1", "print('b', end='')"])
                if r.random() < 0.7:
                    op['after'] = r.choice(["print('after')", "post_marker = 2", "print()"])
        elif c < 0.62:
            fn = r.choice(sorted(LIB_FUNCS))
            op = {'op': 'call', 'fn': fn, 'args_src': [gen_arg(r, k, exotic_args) for k in LIB_FUNCS[fn]]}
            if fn in ('echo', 'ident', 'size') and r.random() < 0.2:
                # pass one of the student's own variables by name instead of a value
                op['args_locals'] = [r.choice(['counter', 'sys.argv[:0]', 'str(counter)', '[counter, counter]'])]
            if fn in ('quiet', 'biggest') and r.random() < 0.25:
                op['args_locals'] = r.choice([['counter'], [None, 'counter'], ['counter', 'counter + 1']])
            if fn == 'kw' and r.random() < 0.6:
                c2 = r.random()
                if c2 < 0.6:
                    op['kwargs'] = r.choice([{'b': 5}, {'c': 7}, {'b': 1, 'c': 1}])
                elif c2 < 0.8:
                    op['function_kwargs'] = r.choice([{'b': 4}, {'c': 6, 'b': 0}])      # e.g. names that clash with call()'s own
                else:
                    op['kwargs_locals'] = r.choice([{'b': 'counter'}, {'c': 'counter + 1'}])
            if r.random() < 0.12:
                op['target'] = r.choice(['result_box', 'answer_value', '_'])
            if r.random() < 0.15:
                op['inputs'] = [r.choice(['in1', '7'])]
        elif nested_calls and c < 0.66:
            # the instructor hands a sandbox function back to student code as a callback: executions nest
            op = {'op': 'call', 'fn': 'apply_fn', 'args_src': ['@fn:' + r.choice(['quiet', 'kw']), repr(r.randint(0, 5))]}
        elif c < 0.74:
            fn = r.choice(['quiet(1, 2)', 'chatty(2)', 'boom(0)', 'boom(5)', 'tick()', "noeol('e')", 'counter',
                           "ask('<<e1>>')", '1 + 1', "echo('v')", 'swallow(0)', "writer('raw')", '[tick(), tick()]'])
            op = {'op': 'evaluate', 'expr': fn}
            if r.random() < 0.12:
                op['target'] = r.choice(['evaluated_value', 'tmp_result'])
        elif io_ops and c < 0.80:
            op = {'op': 'set_input', 'value': r.choice([['a', 'b'], 'solo', 5, [], ['x'], None, [1, 2]]),
                  'clear': r.random() < 0.8}
        elif io_ops and c < 0.86:
            op = {'op': 'queue_input', 'values': [r.choice(['q1', 'q2', '3']) for _ in range(r.randint(1, 3))]}
        elif io_ops and c < 0.90:
            op = {'op': 'clear_input'}
        elif io_ops and c < 0.96:
            op = {'op': 'clear_output'}
        else:
            op = {'op': 'evaluate', 'expr': 'counter + 0'}
        if op['op'] in ('run', 'call', 'evaluate'):
            if threaded_rate and r.random() < threaded_rate:
                op['threaded'] = True
            if rf.random() < fault_rate:
                kind = 'sync_student'
                if rf.random() < 0.15:
                    kind = 'sync_record'
                op['fault'] = {'kind': kind, 'k': rf.randint(1, 12 if kind == 'sync_student' else 60),
                               'exc': rf.choice(fault_classes)}
        ops.append(op)
    return {'files': files, 'ops': ops}
