"""The simulator's seam into running code: a ``sys.monitoring`` (PEP 669) tool.

* global LINE events, filtered by ``co_filename`` into
    'S' student files, 'I' instructor script / call wrappers, 'P' pedal's own code,
  everything else is DISABLEd at first sight (one callback per location, then free);
* synchronous fault injection: raise a catalogue exception at the k-th event of a kind;
  an exception raised from a LINE callback propagates into the monitored frame as if
  raised by the line about to execute, and monitoring stays on;
* the callback's own frame is spliced out of the traceback in the RAISE callback, so the
  innermost traceback entry is the monitored line (indistinguishable from a natural raise);
* a pre-emption hook (``yield_hook``) that the thread scheduler installs, and through which
  asynchronous exceptions are delivered to a thread at a LINE boundary;
* an event-log digest for the determinism self-test.

Nothing in /repo is touched.
"""
import hashlib
import os
import sys

from sim import faults

mon = sys.monitoring
EV = mon.events
TOOL_ID = 4
DISABLE = mon.DISABLE


class Monitor:
    def __init__(self):
        self.installed = False
        self.enabled = False
        self.student_files = frozenset()
        self.instructor_files = frozenset()
        self.pedal_prefix = None
        self.pedal_only = None          # optional tuple of path suffixes to restrict 'P'
        self._file_kind = {}
        self.nS = self.nI = self.nP = 0
        self.armed = None               # one armed synchronous fault (dict) or None
        self.fired = []                 # records of faults that actually fired
        self._injected = None           # exception object whose traceback awaits splicing
        self.hasher = None
        self.yield_hook = None          # scheduler: callable(kind, code, line)
        self.line_hook = None           # generic observer: callable(kind, code, line)
        self.last_S = None              # (file, func, line) of the last student event
        self.sites = None               # optional set of (kind, file, func, line)
        self.in_callback = 0
        self.instr_codes = ()
        self._with_cache = {}
        self.veto = None                # optional callable: True = this event is not an eligible crash point
        self.last_count = 0             # matching events counted by the most recent armed fault
        self.cur = 0                    # index of the running simulated thread (set by the scheduler)

    # ------------------------------------------------------------------ setup
    def install(self, pedal_dir):
        if self.installed:
            return
        self.pedal_prefix = os.path.join(os.path.realpath(pedal_dir), '')
        if mon.get_tool(TOOL_ID) is not None:
            mon.free_tool_id(TOOL_ID)
        mon.use_tool_id(TOOL_ID, 'pedal-sim')
        mon.register_callback(TOOL_ID, EV.LINE, self._on_line)
        mon.register_callback(TOOL_ID, EV.RAISE, self._on_raise)
        mon.register_callback(TOOL_ID, EV.INSTRUCTION, self._on_instruction)
        mon.set_events(TOOL_ID, EV.LINE | EV.RAISE)
        self.installed = True

    def configure(self, student_files=(), instructor_files=(), pedal_only=None):
        self.student_files = frozenset(student_files)
        self.instructor_files = frozenset(instructor_files)
        self.pedal_only = pedal_only
        self._file_kind = {}
        mon.restart_events()

    def begin(self, digest=True, sites=False):
        self.nS = self.nI = self.nP = 0
        self.armed = None
        self.fired = []
        self._injected = None
        self.last_S = None
        self.hasher = hashlib.blake2b(digest_size=12) if digest else None
        self.sites = set() if sites else None
        self.enabled = True

    def end(self):
        self.enabled = False
        self.armed = None

    def reset_counts(self):
        self.nS = self.nI = self.nP = 0

    def digest(self):
        return self.hasher.hexdigest() if self.hasher is not None else None

    def arm(self, fault):
        """fault: {'kind': 'sync_student'|'sync_instructor'|'sync_record'|'sync_pedal', 'k': int, 'exc': name}"""
        if fault is None and self.armed is not None:
            self.last_count = self.armed.get('_count', 0)
        self.armed = dict(fault) if fault is not None else None
        if self.armed is not None:
            self.armed['_count'] = 0
            self.last_count = 0

    # ------------------------------------------------------------------ classify
    def _classify(self, filename):
        if filename in self.student_files:
            return 'S'
        if filename in self.instructor_files:
            return 'I'
        if filename.startswith(self.pedal_prefix):
            if self.pedal_only is not None:
                rel = filename[len(self.pedal_prefix):]
                if not rel.startswith(self.pedal_only):
                    return '-'
            return 'P'
        return '-'

    # ------------------------------------------------------------------ callbacks
    def _on_line(self, code, line):
        filename = code.co_filename
        kind = self._file_kind.get(filename)
        if kind is None:
            kind = self._file_kind[filename] = self._classify(filename)
        if kind == '-':
            return DISABLE
        if not self.enabled or line <= 0:
            return None          # line 0 = the implicit start of a module without statements: not a source line
        if kind == 'S':
            self.nS += 1
            self.last_S = (filename, code.co_name, line)
        elif kind == 'I':
            self.nI += 1
        else:
            self.nP += 1
        h = self.hasher
        if h is not None:
            h.update(b'%d%s:%s:%s:%d\n' % (
                self.cur, kind.encode(), os.path.basename(filename).encode(),
                code.co_name.encode(), line))
        if self.sites is not None:
            self.sites.add((kind, os.path.basename(filename), code.co_name, line))
        hook = self.line_hook
        if hook is not None:
            hook(kind, code, line)
        hook = self.yield_hook
        if hook is not None:
            exc = hook(kind, code, line)
            if exc is not None:
                self._injected = exc
                raise exc
        f = self.armed
        if f is not None:
            fk = f['kind']
            hit = False
            if fk == 'sync_student':
                hit = kind == 'S'
            elif fk == 'sync_instructor':
                hit = kind == 'I'
            elif fk == 'sync_script':      # instructor script or pedal code beneath it
                hit = kind in ('I', 'P')
            elif fk == 'sync_pedal':
                hit = kind == 'P'
            elif fk == 'sync_record':
                hit = kind == 'P' and self._within(f.get('within', '_capture_exception'))
            elif fk == 'sync_script2':
                # crash point = the kI-th instructor-script LINE event, then dP further script/pedal events
                if f.get('_stage', 0) == 0:
                    if kind == 'I':
                        f['_i'] = f.get('_i', 0) + 1
                        if f['_i'] == f['kI']:
                            f['_stage'] = 1
                            f['k'] = f.get('dP', 0) + 1
                            f['_count'] = 0
                            hit = True
                else:
                    hit = kind in ('I', 'P')
            if hit and self._is_with_line(filename, line):
                # the LINE event of a `with` statement also fires when the block is LEFT, just before __exit__ is
                # called; raising there would skip __exit__ -- that is an asynchronous-exception hazard of
                # Python itself, not a synchronous crash point
                hit = False
            if hit and self.veto is not None and fk in ('sync_script2', 'sync_pedal', 'sync_script') and self.veto():
                hit = False        # not an eligible crash point (see the engine that installed the veto)
            if hit:
                f['_count'] += 1
                if f['_count'] == f['k']:
                    self.last_count = f['_count']
                    self.armed = None
                    exc = faults.make(f['exc'])
                    self.fired.append({'kind': fk, 'k': f['k'], 'exc': f['exc'],
                                       'file': os.path.basename(filename), 'func': code.co_name,
                                       'line': line, 'event_kind': kind})
                    self._injected = exc
                    raise exc
        return None

    def _on_instruction(self, code, offset):
        # used only by the thread engine at INSTRUCTION granularity (local events)
        if not self.enabled:
            return None
        hook = self.yield_hook
        if hook is not None:
            exc = hook('p', code, -offset - 1)
            if exc is not None:
                self._injected = exc
                raise exc
        return None

    def _is_with_line(self, filename, line):
        key = (filename, line)
        r = self._with_cache.get(key)
        if r is None:
            import linecache
            text = linecache.getline(filename, line).lstrip()
            r = self._with_cache[key] = text.startswith('with ') or text.startswith('async with ')
        return r

    def _within(self, func_name):
        fr = sys._getframe(2)
        while fr is not None:
            if fr.f_code.co_name == func_name and fr.f_code.co_filename.startswith(self.pedal_prefix):
                return True
            fr = fr.f_back
        return False

    _CB_CODES = None

    def _on_raise(self, code, offset, exc):
        if exc is self._injected:
            cbs = Monitor._CB_CODES
            tb = exc.__traceback__
            prev = None
            while tb is not None:
                if tb.tb_frame.f_code in cbs:
                    # drop this entry and everything below it (callback internals)
                    if prev is not None:
                        prev.tb_next = None
                    self._injected = None
                    break
                prev = tb
                tb = tb.tb_next

    # ------------------------------------------------------------------ instruction granularity
    def enable_instructions(self, code_objects):
        for co in code_objects:
            mon.set_local_events(TOOL_ID, co, EV.INSTRUCTION)
        self.instr_codes = tuple(code_objects)

    def disable_instructions(self):
        for co in self.instr_codes:
            mon.set_local_events(TOOL_ID, co, 0)
        self.instr_codes = ()


Monitor._CB_CODES = frozenset({Monitor._on_line.__code__, Monitor._on_instruction.__code__})

MONITOR = Monitor()
