"""Exception catalogue for injected faults.

Every class is addressed by a stable string name so that specs / replay files are
plain JSON.  ``make(name)`` builds a fresh instance; ``expected_class(name)`` is the
class an observer should see (what ``type(exc)`` is for the raised object).
"""


class StudentError(Exception):
    """user-defined Exception subclass"""


class StudentKeyError(KeyError):
    """user-defined subclass of a builtin exception that pedal treats specially"""


class StudentValueError(ValueError):
    """user-defined subclass of an ordinary builtin exception"""


class BadStrError(Exception):
    """user-defined exception whose string conversion raises"""

    def __str__(self):
        raise RuntimeError("__str__ is broken")


class BadReprError(Exception):
    """user-defined exception whose repr raises"""

    def __repr__(self):
        raise RuntimeError("__repr__ is broken")


class BadBothError(Exception):
    def __str__(self):
        raise RuntimeError("__str__ is broken")

    def __repr__(self):
        raise RuntimeError("__repr__ is broken")


class FalsyError(Exception):
    """an exception object that is falsy"""

    def __bool__(self):
        return False


class EmptyCollectionError(Exception):
    """an exception that doubles as an (empty) collection of problems: len() == 0, so it is falsy"""

    def __init__(self, *problems):
        super().__init__(*problems)
        self.problems = list(problems)

    def __len__(self):
        return len(self.problems)


class StudentBase(BaseException):
    """user-defined BaseException subclass (not an Exception)"""


# name -> (factory, class)
_CATALOGUE = {
    'ValueError': (lambda: ValueError("injected value error"), ValueError),
    'KeyError': (lambda: KeyError("injected_key"), KeyError),
    'ZeroDivisionError': (lambda: ZeroDivisionError("division by zero"), ZeroDivisionError),
    'IndexError': (lambda: IndexError("list index out of range"), IndexError),
    'TypeError': (lambda: TypeError("unsupported operand"), TypeError),
    'AttributeError': (lambda: AttributeError("'int' object has no attribute 'x'"), AttributeError),
    'NameError': (lambda: NameError("name 'zzz' is not defined"), NameError),
    'OSError': (lambda: OSError("injected os error"), OSError),
    'OSError2': (lambda: OSError(2, "No such file or directory"), OSError),
    'FileNotFoundError': (lambda: FileNotFoundError(2, "No such file", "x.txt"), FileNotFoundError),
    'StopIteration': (lambda: StopIteration(), StopIteration),
    'AssertionError': (lambda: AssertionError(), AssertionError),
    'RecursionError': (lambda: RecursionError("maximum recursion depth exceeded"), RecursionError),
    'MemoryError': (lambda: MemoryError(), MemoryError),
    'ImportError': (lambda: ImportError("No module named 'zzz'"), ImportError),
    'TimeoutErrorStudent': (lambda: TimeoutError("student-raised timeout"), TimeoutError),
    'UnicodeDecodeError': (lambda: UnicodeDecodeError('utf-8', b'\xff', 0, 1, 'invalid start byte'),
                           UnicodeDecodeError),
    'Exception': (lambda: Exception("plain exception"), Exception),
    'RuntimeError': (lambda: RuntimeError("runtime failure"), RuntimeError),
    'LookupError': (lambda: LookupError("lookup failure"), LookupError),
    'ArithmeticError': (lambda: ArithmeticError("arithmetic failure"), ArithmeticError),
    'NotImplementedError': (lambda: NotImplementedError(), NotImplementedError),
    'KeyErrorNoArgs': (lambda: KeyError(), KeyError),
    'ValueErrorNoArgs': (lambda: ValueError(), ValueError),
    'IndexErrorNoArgs': (lambda: IndexError(), IndexError),
    'OSErrorNoArgs': (lambda: OSError(), OSError),
    'KeyErrorTwoArgs': (lambda: KeyError('k', 'extra'), KeyError),
    'StudentError': (lambda: StudentError("custom failure"), StudentError),
    'StudentKeyError': (lambda: StudentKeyError("missing part"), StudentKeyError),
    'StudentValueError': (lambda: StudentValueError("bad part"), StudentValueError),
    'EmptyMessage': (lambda: StudentError(), StudentError),
    'NonStrArgs': (lambda: StudentError(42, [1, 2], None), StudentError),
    'FalsyError': (lambda: FalsyError("falsy"), FalsyError),
    'EmptyCollectionError': (lambda: EmptyCollectionError(), EmptyCollectionError),
    'BadStrError': (lambda: BadStrError("x"), BadStrError),
    'BadReprError': (lambda: BadReprError("x"), BadReprError),
    'BadBothError': (lambda: BadBothError("x"), BadBothError),
    'SystemExit': (lambda: SystemExit(), SystemExit),
    'SystemExitInt': (lambda: SystemExit(3), SystemExit),
    'SystemExitStr': (lambda: SystemExit("bye"), SystemExit),
    'KeyboardInterrupt': (lambda: KeyboardInterrupt(), KeyboardInterrupt),
    'GeneratorExit': (lambda: GeneratorExit(), GeneratorExit),
    'StudentBase': (lambda: StudentBase("base"), StudentBase),
}

ORDINARY = ['ValueError', 'KeyError', 'ZeroDivisionError', 'IndexError', 'TypeError',
            'AttributeError', 'NameError', 'OSError', 'OSError2', 'FileNotFoundError',
            'StopIteration', 'AssertionError', 'RecursionError', 'MemoryError', 'ImportError',
            'TimeoutErrorStudent', 'UnicodeDecodeError',
            'StudentError', 'StudentKeyError', 'StudentValueError', 'EmptyMessage', 'NonStrArgs', 'FalsyError', 'EmptyCollectionError',
            'Exception', 'RuntimeError', 'LookupError', 'ArithmeticError', 'NotImplementedError',
            'KeyErrorNoArgs', 'ValueErrorNoArgs', 'IndexErrorNoArgs', 'OSErrorNoArgs', 'KeyErrorTwoArgs']
BROKEN = ['BadStrError', 'BadReprError', 'BadBothError']
EXITS = ['SystemExit', 'SystemExitInt', 'SystemExitStr']
BASE = ['KeyboardInterrupt', 'GeneratorExit', 'StudentBase']
ALL = ORDINARY + BROKEN + EXITS + BASE


def make(name):
    return _CATALOGUE[name][0]()


def expected_class(name):
    return _CATALOGUE[name][1]


def is_exception_subclass(name):
    return issubclass(_CATALOGUE[name][1], Exception)


def family(name):
    if name in BROKEN:
        return 'broken-str'
    if name in EXITS:
        return 'SystemExit'
    if name in BASE:
        return 'BaseException'
    return 'Exception'
