"""Workload generator: student programs over the CS1 subset, as lists of statements.

A program is ``{'stmts': [[line, ...], ...]}`` -- each top-level statement is a list of
source lines -- so that the shrinker can drop statements.  ``source(prog)`` joins them.
Everything is drawn from the ``random.Random`` passed in; nothing here reads a clock,
``hash()`` or the environment.

This is *input generation* and is labelled as such in the evidence: it provides the
workload, the simulator decides what happens to each workload item.
"""

PROMPT = '<<p%d>>'


def source(stmts):
    lines = []
    for st in stmts:
        lines.extend(st)
    return '\n'.join(lines) + ('\n' if lines else '')


def indent(lines, n=1):
    pad = '    ' * n
    return [pad + ln for ln in lines]


class ProgGen:
    """Generates mostly type-correct, always terminating, deterministic programs."""

    def __init__(self, rng, allow_input=True, helper_module=None, allow_raise=True,
                 allow_sys=True, name_prefix='', data_file=None):
        self.data_file = data_file
        self.r = rng
        self.allow_input = allow_input
        self.helper_module = helper_module     # (module_name, [function names taking 1 int])
        self.allow_raise = allow_raise
        self.allow_sys = allow_sys
        self.p = name_prefix
        self.vars = {'int': [], 'str': [], 'list': [], 'dict': [], 'obj': []}
        self.funcs = []      # (name, n_int_params, returns)
        self.classes = []    # name
        self.counter = 0
        self.prompts = 0
        self.reads = 0
        self.imported = set()

    # ------------------------------------------------------------ helpers
    def fresh(self, kind):
        self.counter += 1
        return '%s%s%d' % (self.p, {'int': 'n', 'str': 's', 'list': 'xs', 'dict': 'd', 'obj': 'o',
                                    'func': 'f', 'class': 'K', 'tmp': 't'}[kind], self.counter)

    def pick(self, kind):
        vs = self.vars[kind]
        return self.r.choice(vs) if vs else None

    def int_lit(self):
        return str(self.r.choice([0, 1, 2, 3, 4, 5, 7, 10, 12, 100, -1, -3]))

    def str_lit(self):
        return repr(self.r.choice(['a', 'hello', 'Hello World', '', ' pad ', 'x y', 'line1\nline2', 'tab\there',
                                   'trail  ', 'UP', '42', "it's", 'end.', 'cr\rlf', 'crlf\r\n', 'ff\x0cvt\x0b', 'nel\x85ls\u2028',
                                   'caf\xe9 \u4f60\u597d \U0001f600', 'nul\x00in', 'q"uote\\back']))

    def int_expr(self, depth=0, local=None):
        r = self.r
        pool = list(self.vars['int']) if local is None else list(local)
        c = r.random()
        if depth > 2 or c < 0.3:
            if pool and r.random() < 0.6:
                return r.choice(pool)
            return self.int_lit()
        if c < 0.75:
            op = r.choice(['+', '-', '*', '//', '%', '+', '-'])
            a, b = self.int_expr(depth + 1, local), self.int_expr(depth + 1, local)
            if op in ('//', '%'):
                b = r.choice(['2', '3', '5', b]) if r.random() < 0.85 else b
            return '(%s %s %s)' % (a, op, b)
        if c < 0.82 and self.vars['list'] and local is None:
            return 'len(%s)' % r.choice(self.vars['list'])
        if c < 0.88 and self.vars['str'] and local is None:
            return 'len(%s)' % r.choice(self.vars['str'])
        if c < 0.93:
            return 'abs(%s)' % self.int_expr(depth + 1, local)
        if c < 0.97:
            return 'max(%s, %s)' % (self.int_expr(depth + 1, local), self.int_expr(depth + 1, local))
        return 'int(%s)' % repr(str(r.randint(0, 99)))

    def str_expr(self, depth=0):
        r = self.r
        c = r.random()
        sv = self.vars['str']
        if depth > 1 or c < 0.3:
            if sv and r.random() < 0.6:
                return r.choice(sv)
            return self.str_lit()
        if c < 0.5:
            return '(%s + %s)' % (self.str_expr(depth + 1), self.str_expr(depth + 1))
        if c < 0.6:
            return 'str(%s)' % self.int_expr(1)
        if c < 0.72:
            return '%s.%s()' % (self.str_expr(depth + 1), r.choice(['upper', 'lower', 'strip', 'title', 'rstrip']))
        if c < 0.8:
            return "f'{%s}-{%s}'" % (self.int_expr(1), self.int_expr(1))
        if c < 0.86:
            return "('%%s=%%d' %% (%s, %s))" % (self.str_lit(), self.int_expr(1))
        if c < 0.92:
            return '(%s * %s)' % (self.str_expr(depth + 1), r.choice(['0', '1', '2', '3']))
        return "'{}:{}'.format(%s, %s)" % (self.int_expr(1), self.str_lit())

    def cond(self, local=None):
        r = self.r
        a, b = self.int_expr(1, local), self.int_expr(1, local)
        op = r.choice(['<', '<=', '==', '!=', '>', '>='])
        c = '%s %s %s' % (a, op, b)
        if r.random() < 0.2:
            c = '%s %s %s' % (c, r.choice(['and', 'or']), '%s %s %s' % (self.int_expr(1, local), r.choice(['<', '>']),
                                                                        self.int_expr(1, local)))
        if r.random() < 0.1:
            c = 'not (%s)' % c
        return c

    def any_expr(self):
        r = self.r
        c = r.random()
        if c < 0.4:
            return self.int_expr()
        if c < 0.75:
            return self.str_expr()
        if c < 0.85 and self.vars['list']:
            return r.choice(self.vars['list'])
        if c < 0.9 and self.vars['dict']:
            return r.choice(self.vars['dict'])
        if c < 0.95:
            return r.choice(['None', 'True', 'False', '3.5', '(1, 2)', '[]'])
        return self.int_expr()

    # ------------------------------------------------------------ statements
    def print_stmt(self):
        r = self.r
        n = r.choice([0, 1, 1, 1, 2, 3])
        args = [self.any_expr() for _ in range(n)]
        kw = []
        c = r.random()
        if c < 0.15:
            kw.append('sep=%s' % repr(r.choice(['', ', ', '-', '\n', ' | '])))
        if 0.1 < c < 0.3:
            kw.append('end=%s' % repr(r.choice(['', ' ', '!\n', '\n\n', '  \n', ';', '\r', '\r\n'])))
        if c > 0.9 and self.allow_sys:
            self.need('sys')
            kw.append('file=sys.stdout')
        return ['print(%s)' % ', '.join(args + kw)]

    def need(self, module):
        self.imported.add(module)

    def write_stmt(self):
        self.need('sys')
        return ['sys.stdout.write(%s)' % self.str_expr()]

    def assign_int(self):
        v = self.fresh('int')
        line = '%s = %s' % (v, self.int_expr())
        self.vars['int'].append(v)
        return [line]

    def assign_str(self):
        v = self.fresh('str')
        line = '%s = %s' % (v, self.str_expr())
        self.vars['str'].append(v)
        return [line]

    def assign_list(self):
        v = self.fresh('list')
        n = self.r.randint(0, 5)
        line = '%s = [%s]' % (v, ', '.join(self.int_expr(1) for _ in range(n)))
        self.vars['list'].append(v)
        return [line]

    def assign_dict(self):
        v = self.fresh('dict')
        n = self.r.randint(0, 4)
        keys = self.r.sample(['a', 'b', 'c', 'k1', 'k2', 'zz'], n)
        line = '%s = {%s}' % (v, ', '.join('%r: %s' % (k, self.int_expr(1)) for k in keys))
        self.vars['dict'].append(v)
        return [line]

    def mutate(self):
        r = self.r
        c = r.random()
        if c < 0.3 and self.vars['list']:
            return ['%s.append(%s)' % (r.choice(self.vars['list']), self.int_expr(1))]
        if c < 0.45 and self.vars['dict']:
            return ['%s[%s] = %s' % (r.choice(self.vars['dict']), repr(r.choice(['a', 'b', 'q', 'new'])),
                                     self.int_expr(1))]
        if c < 0.6 and self.vars['int']:
            return ['%s %s %s' % (r.choice(self.vars['int']), r.choice(['+=', '-=', '*=']), self.int_expr(1))]
        if c < 0.7 and self.vars['list']:
            lst = r.choice(self.vars['list'])
            return ['if %s:' % lst, '    %s[%s] = %s' % (lst, r.choice(['0', '-1']), self.int_expr(1))]
        if c < 0.78 and self.vars['list']:
            lst = r.choice(self.vars['list'])
            return ['%s.%s' % (lst, r.choice(['sort()', 'reverse()', 'extend([1, 2])', 'insert(0, 9)']))]
        if c < 0.85 and self.vars['str']:
            s = r.choice(self.vars['str'])
            return ['%s = %s + %s' % (s, s, self.str_lit())]
        if c < 0.92 and self.vars['list']:
            lst = r.choice(self.vars['list'])
            v = self.fresh('int')
            self.vars['int'].append(v)
            return ['%s = sum(%s)' % (v, lst)]
        return self.assign_int()

    def risky(self):
        """an expression statement that may raise naturally"""
        r = self.r
        c = r.random()
        v = self.fresh('int')
        if c < 0.35:
            out = ['%s = %s // %s' % (v, self.int_expr(1), r.choice(['0', '1', self.int_expr(1)]))]
        elif c < 0.6 and self.vars['list']:
            out = ['%s = %s[%s]' % (v, r.choice(self.vars['list']), r.choice(['0', '1', '5', '-1', '10']))]
        elif c < 0.8 and self.vars['dict']:
            out = ['%s = %s[%s]' % (v, r.choice(self.vars['dict']), repr(r.choice(['a', 'b', 'nope'])))]
        elif c < 0.9:
            out = ['%s = int(%s)' % (v, repr(r.choice(['12', 'x1', '', '7'])))]
        else:
            out = ['%s = %s + %s' % (v, self.int_expr(1), r.choice(['1', "'a'", 'None']))]
        self.vars['int'].append(v)
        return out

    def block(self, depth, n=None):
        n = n if n is not None else self.r.randint(1, 3)
        lines = []
        for _ in range(n):
            lines.extend(self.simple_or_compound(depth))
        return lines or ['pass']

    def if_stmt(self, depth):
        lines = ['if %s:' % self.cond()]
        # variables created inside a branch may not exist afterwards: generate in a scratch scope
        lines += indent(self.scoped(lambda: self.block(depth + 1)))
        c = self.r.random()
        if c < 0.3:
            lines += ['elif %s:' % self.cond()] + indent(self.scoped(lambda: self.block(depth + 1, 1)))
        if c < 0.6:
            lines += ['else:'] + indent(self.scoped(lambda: self.block(depth + 1, 1)))
        return lines

    def scoped(self, fn):
        saved = {k: list(v) for k, v in self.vars.items()}
        nf, nc = len(self.funcs), len(self.classes)
        try:
            return fn()
        finally:
            self.vars = saved
            del self.funcs[nf:]
            del self.classes[nc:]

    def for_stmt(self, depth):
        r = self.r
        i = self.fresh('tmp')
        over = None
        if r.random() < 0.5 or not self.vars['list']:
            head = 'for %s in range(%s):' % (i, r.choice(['0', '1', '2', '3', '4']))
        else:
            over = r.choice(self.vars['list'])
            head = 'for %s in %s:' % (i, over)

        def body():
            self.vars['int'].append(i)
            if over is not None:      # the iterated list is not mutable from inside its own loop
                self.vars['list'] = [v for v in self.vars['list'] if v != over]
            lines = self.block(depth + 1)
            if r.random() < 0.15:
                lines += ['if %s:' % self.cond(), '    ' + r.choice(['break', 'continue'])]
            return lines
        return [head] + indent(self.scoped(body))

    def while_stmt(self, depth):
        r = self.r
        self.counter += 1
        i = '%sw%d' % (self.p, self.counter)     # loop counter: never in a variable pool,
        n = r.choice(['0', '1', '2', '3'])       # so no generated statement can modify it
        lines = ['%s = 0' % i, 'while %s < %s:' % (i, n)]
        body = self.scoped(lambda: self.block(depth + 1, r.randint(0, 2)))
        lines += indent((body if body != ['pass'] else []) + ['%s += 1' % i])
        return lines

    def def_stmt(self, depth):
        r = self.r
        name = self.fresh('func')
        npar = r.randint(0, 3)
        params = ['a', 'b', 'c'][:npar]
        kind = r.choice(['int', 'int', 'str', 'none', 'list'])

        def body():
            # fresh local scope: globals stay readable, locals are new names
            local_ints = list(params)
            lines = []
            for _ in range(r.randint(0, 3)):
                c = r.random()
                if c < 0.3:
                    v = self.fresh('tmp')
                    lines.append('%s = %s' % (v, self.int_expr(1, local_ints or None)))
                    local_ints.append(v)
                elif c < 0.5:
                    lines.extend(self.print_stmt())
                elif c < 0.65 and local_ints:
                    lines += ['if %s:' % self.cond(local_ints), '    return %s' %
                              (self.int_expr(1, local_ints) if kind == 'int' else 'None')]
                elif c < 0.75 and self.allow_input:
                    lines.extend(self.input_stmt(local=True))
                elif c < 0.85:
                    lines += ['for _i in range(%s):' % r.choice(['1', '2', '3']), '    ' + self.print_stmt()[0]]
                else:
                    lines.extend(self.print_stmt())
            if kind == 'int':
                lines.append('return %s' % self.int_expr(1, local_ints or None))
            elif kind == 'str':
                lines.append('return %s' % self.str_expr())
            elif kind == 'list':
                lines.append('return [%s]' % ', '.join(self.int_expr(1, local_ints or None) for _ in range(r.randint(0, 3))))
            elif not lines:
                lines.append('pass')
            return lines
        lines = ['def %s(%s):' % (name, ', '.join(params))] + indent(self.scoped(body))
        self.funcs.append((name, npar, kind))
        return lines

    def call_stmt(self):
        r = self.r
        if not self.funcs:
            return self.assign_int()
        name, npar, kind = r.choice(self.funcs)
        args = ', '.join(self.int_expr(1) for _ in range(npar))
        if kind == 'int':
            v = self.fresh('int')
            self.vars['int'].append(v)
        elif kind == 'str':
            v = self.fresh('str')
            self.vars['str'].append(v)
        elif kind == 'list':
            v = self.fresh('list')
            self.vars['list'].append(v)
        else:
            return ['%s(%s)' % (name, args)]
        return ['%s = %s(%s)' % (v, name, args)]

    def class_stmt(self, depth):
        r = self.r
        name = self.fresh('class')
        lines = ['class %s:' % name,
                 '    def __init__(self, v):',
                 '        self.v = v',
                 '        self.log = []',
                 '    def bump(self, k):',
                 '        self.v = self.v + k',
                 '        self.log.append(k)',
                 '        return self.v']
        c = r.random()
        if c < 0.4:
            lines += ['    def __str__(self):', "        return '<%s ' + str(self.v) + '>'" % name]
        if 0.3 < c < 0.6:
            lines += ['    def __eq__(self, other):', '        return isinstance(other, %s) and self.v == other.v' % name]
        if c > 0.8:
            lines += ['    def show(self):', '        print(%s, self.v)' % repr(name)]
        self.classes.append(name)
        o = self.fresh('obj')
        lines2 = ['%s = %s(%s)' % (o, name, self.int_expr(1))]
        v = self.fresh('int')
        lines2.append('%s = %s.bump(%s)' % (v, o, self.int_expr(1)))
        self.vars['obj'].append(o)
        self.vars['int'].append(v)
        if c < 0.4:
            lines2.append('print(%s)' % o)
        if c > 0.8:
            lines2.append('%s.show()' % o)
        return lines + lines2

    def comp_stmt(self):
        r = self.r
        v = self.fresh('list')
        src = r.choice(self.vars['list']) if self.vars['list'] and r.random() < 0.6 else 'range(%d)' % r.randint(0, 5)
        c = r.random()
        if c < 0.5:
            line = '%s = [e * %s for e in %s]' % (v, self.int_lit(), src)
        elif c < 0.8:
            line = '%s = [e for e in %s if e %% 2 == %s]' % (v, src, r.choice(['0', '1']))
        else:
            line = '%s = sorted({e %% 3 for e in %s})' % (v, src)
        self.vars['list'].append(v)
        return [line]

    def try_stmt(self, depth):
        r = self.r
        exc = r.choice(['ZeroDivisionError', 'IndexError', 'KeyError', 'ValueError', 'TypeError', 'Exception',
                        '(ZeroDivisionError, IndexError)'])
        body = self.scoped(lambda: self.risky() + self.block(depth + 1, r.randint(0, 1)))
        lines = ['try:'] + indent(body)
        c = r.random()
        if c < 0.5:
            lines += ['except %s:' % exc] + indent(self.scoped(lambda: self.print_stmt()))
        else:
            lines += ['except %s as err:' % exc, '    print(type(err).__name__)']
        if 0.3 < c < 0.6:
            lines += ['else:'] + indent(self.scoped(lambda: self.print_stmt()))
        if c > 0.7:
            lines += ['finally:'] + indent(self.scoped(lambda: self.print_stmt()))
        return lines

    def input_stmt(self, local=False):
        r = self.r
        self.prompts += 1
        self.reads += 1
        prompt = PROMPT % self.prompts
        c = r.random()
        if c < 0.15:
            call = 'input()'
        else:
            call = 'input(%r)' % prompt
        if local:
            return ['_r = %s' % call, 'print(_r)'] if r.random() < 0.5 else ['_r = %s' % call]
        v = self.fresh('str')
        self.vars['str'].append(v)
        return ['%s = %s' % (v, call)]

    def custom_raise_stmt(self):
        """a user-defined exception whose __str__/__repr__ is student code: it runs while pedal records"""
        r = self.r
        name = self.fresh('class') + 'Error'
        lines = ['class %s(Exception):' % name,
                 '    def __init__(self, code):',
                 '        super().__init__(code)',
                 '        self.code = code',
                 '    def __str__(self):',
                 "        text = 'code ' + str(self.code)",
                 '        return text']
        if r.random() < 0.4:
            lines += ['    def __repr__(self):', "        return '%s(' + repr(self.code) + ')'" % name]
        lines.append('raise %s(%s)' % (name, self.int_expr(1)))
        return lines

    def raise_stmt(self):
        r = self.r
        if r.random() < 0.3:
            return self.custom_raise_stmt()
        name = r.choice(['ValueError', 'KeyError', 'RuntimeError', 'TypeError', 'IndexError', 'ZeroDivisionError',
                         'Exception', 'AssertionError', 'NameError', 'OSError', 'StopIteration', 'AttributeError'])
        arg = r.choice(['', repr('planted failure'), repr('k'), '1, 2'])
        if r.random() < 0.5:
            return ['raise %s(%s)' % (name, arg)]
        return ['if %s:' % self.cond(), '    raise %s(%s)' % (name, arg)]

    def import_stmt(self):
        r = self.r
        c = r.random()
        if c < 0.18:
            # submodules / from-imports of packages, possibly loaded for the first time by this very program
            return r.choice([
                ['from json import tool as json_tool', 'print(json_tool.__name__)'],
                ['from xml.etree import ElementTree', "print(ElementTree.fromstring('<a b=\"1\"/>').get('b'))"],
                ['from email import utils as mail_utils', "print(mail_utils.parseaddr('A <b@c.d>')[1])"],
                ['import os.path', "print(os.path.basename('a/b.txt'))"],
                ['from collections import abc as cabc', 'print(issubclass(list, cabc.Sequence))'],
                ['import colorsys', 'print(colorsys.rgb_to_hsv(1, 0, 0)[2])'],
                ['from html import parser as html_parser', 'print(html_parser.HTMLParser.__name__)'],
                ['from wsgiref import headers as wsgi_headers', "print(wsgi_headers.Headers([('a', 'b')])['a'])"],
            ])
        if c < 0.35:
            self.need('math')
            v = self.fresh('int')
            self.vars['int'].append(v)
            return ['%s = math.floor(math.sqrt(%s))' % (v, r.choice(['16', '2', '81', '0']))]
        if c < 0.6:
            self.need('json')
            v = self.fresh('str')
            self.vars['str'].append(v)
            d = r.choice(self.vars['dict']) if self.vars['dict'] else "{'a': 1}"
            return ['%s = json.dumps(%s, sort_keys=True)' % (v, d)]
        if c < 0.8:
            self.need('string')
            v = self.fresh('str')
            self.vars['str'].append(v)
            return ['%s = string.ascii_lowercase[:%s]' % (v, r.choice(['0', '3', '5']))]
        if self.helper_module:
            mod, fns = self.helper_module
            self.need(mod)
            v = self.fresh('int')
            out = ['%s = %s.%s(%s)' % (v, mod, r.choice(fns), self.int_expr(1))]
            self.vars['int'].append(v)
            return out
        return self.assign_int()

    def gen_stmt(self):
        name = self.fresh('func')
        v = self.fresh('list')
        self.vars['list'].append(v)
        n = self.r.choice(['0', '1', '3'])
        return ['def %s(k):' % name, '    for j in range(k):', '        yield j * 2',
                '%s = list(%s(%s))' % (v, name, n)]

    def misc_stmt(self):
        r = self.r
        c = r.random()
        if c < 0.2:
            a, b = self.fresh('int'), self.fresh('int')
            out = ['%s, %s = %s, %s' % (a, b, self.int_expr(1), self.int_expr(1))]
            self.vars['int'] += [a, b]
            return out
        if c < 0.35:
            return ['assert %s' % self.cond()] if self.allow_raise else ['pass']
        if c < 0.5:
            v = self.fresh('func')
            self.funcs.append((v, 1, 'int'))
            return ['%s = lambda q: q * %s' % (v, self.int_lit())]
        if c < 0.65 and self.vars['int']:
            g = self.r.choice(self.vars['int'])
            name = self.fresh('func')
            self.funcs.append((name, 0, 'none'))
            return ['def %s():' % name, '    global %s' % g, '    %s = %s + 1' % (g, g)]
        if c < 0.8:
            v = self.fresh('str')
            out = ['%s = %s if %s else %s' % (v, self.str_lit(), self.cond(), self.str_lit())]
            self.vars['str'].append(v)
            return out
        if c < 0.9 and self.vars['dict']:
            d = r.choice(self.vars['dict'])
            return ['for key in sorted(%s):' % d, '    print(key, %s[key])' % d]
        if c < 0.915:
            # a student global that happens to share its name with a builtin the sandbox replaces
            name = r.choice(['exit', 'open', 'input', 'compile', 'eval', 'quit_flag'])
            val = r.choice(['False', 'True', '0', "'closed'"])
            reader = self.fresh('func')
            self.funcs.append((reader, 0, 'none'))
            return ['%s = %s' % (name, val), 'def %s():' % reader, '    return %s' % name, 'print(%s())' % reader]
        if c < 0.93:
            return ["if __name__ == '__main__':", "    print('main', __name__)"]
        if c < 0.97:
            # annotated definitions: annotations are evaluated when the def runs, and are observable afterwards
            name = self.fresh('func')
            self.funcs.append((name, 1, 'int'))
            ann = r.choice(['int', 'int', 'str', 'list', 'undefined_annotation_type'])
            return ['def %s(q: %s, w: str = "x") -> int:' % (name, ann), '    return q',
                    'print(sorted(%s.__annotations__.items(), key=str))' % name]
        v = self.fresh('int')
        self.vars['int'].append(v)
        return ['%s = %s' % (v, r.choice(['True', 'False', 'len("abc")', 'round(2.5)', 'ord("a")']))]

    def file_stmt(self):
        """reading a data file that is part of the submission (pedal serves it from memory; allowed, not blocked)"""
        r = self.r
        name = self.data_file
        c = r.randrange(5)
        if c == 0:
            v = self.fresh('str')
            out = ['fh = open(%r)' % name, '%s = fh.read()' % v, 'fh.close()', "print(len(%s), %s.split('\\n')[0])" % (v, v)]
            self.vars['str'].append(v)
            return out
        if c == 1:
            return ['with open(%r) as fh:' % name, '    for row in fh:', '        print(row.strip().upper())']
        if c == 2:
            v = self.fresh('list')
            out = ['%s = [len(row) for row in open(%r).readlines()]' % (v, name)]
            self.vars['list'].append(v)
            return out
        if c == 3:
            return ['fh = open(%r, "r")' % name, 'print(repr(fh.readline()), repr(fh.readline()))', 'fh.close()']
        return ['try:', "    open('no_such_file.txt')", 'except FileNotFoundError as missing:', "    print('missing', type(missing).__name__)"]

    # ------------------------------------------------------------ richer CS1/CS2 constructs
    def rich_stmt(self):
        r = self.r
        if self.data_file and r.random() < 0.35:
            return self.file_stmt()
        c = r.randrange(22)
        f = self.fresh('func')
        if c == 0:      # closure
            self.funcs.append((f, 1, 'int'))
            return ['def %s(a):' % f, '    k = %s' % self.int_lit(), '    def inner(b):', '        return a + b + k',
                    '    return inner(%s)' % self.int_lit()]
        if c == 1:      # *args / **kwargs
            v = self.fresh('int')
            out = ['def %s(*args, **kw):' % f, '    return len(args) * 10 + len(kw)', '%s = %s(1, 2, z=3)' % (v, f)]
            self.funcs.append((f, 2, 'int'))
            self.vars['int'].append(v)
            return out
        if c == 2:      # default argument
            self.funcs.append((f, 1, 'int'))
            return ['def %s(a, b=%s):' % (f, self.int_lit()), '    return a * 2 + b']
        if c == 3:      # bounded recursion
            self.funcs.append((f, 0, 'none'))
            v = self.fresh('int')
            self.vars['int'].append(v)
            return ['def %s(n=%d):' % (f, r.randint(0, 6)), '    if n <= 0:', '        return 0', '    return n + %s(n - 1)' % f,
                    '%s = %s()' % (v, f)]
        if c == 4:      # dict comprehension + items loop
            d = self.fresh('dict')
            self.vars['dict'].append(d)
            return ["%s = {k: len(k) for k in ['a', 'bb', 'ccc'][:%d]}" % (d, r.randint(0, 3)),
                    'for key, val in %s.items():' % d, '    print(key, val)']
        if c == 5:      # for / else
            i = self.fresh('tmp')
            return ['for %s in range(%d):' % (i, r.randint(0, 3)), '    if %s == %d:' % (i, r.randint(0, 4)), '        break',
                    'else:', "    print('no break')"]
        if c == 6:      # while / else
            self.counter += 1
            w = 'w%d' % self.counter
            return ['%s = %d' % (w, r.randint(0, 3)), 'while %s > 0:' % w, '    %s -= 1' % w, 'else:', "    print('loop done', %s)" % w]
        if c == 7 and self.vars['list']:
            xs = r.choice(self.vars['list'])
            v = self.fresh('str')
            out = ["%s = '-'.join(str(e) for e in %s)" % (v, xs), 'print(%s[::-1], %s[1:], sorted(%s, key=lambda e: -e)[:2])' % (xs, xs, xs),
                   'for idx, e in enumerate(%s):' % xs, '    print(idx, e, sep=":")']
            self.vars['str'].append(v)
            return out
        if c == 8:      # nonlocal counter
            v = self.fresh('int')
            out = ['def %s():' % f, '    count = 0', '    def bump():', '        nonlocal count', '        count += 1', '        return count',
                   '    bump()', '    return bump()', '%s = %s()' % (v, f)]
            self.funcs.append((f, 0, 'int'))
            self.vars['int'].append(v)
            return out
        if c == 9:      # inheritance + super()
            a, b = self.fresh('class'), self.fresh('class')
            v = self.fresh('int')
            out = ['class %s:' % a, '    def __init__(self):', '        self.v = %s' % self.int_lit(), '    def get(self):', '        return self.v',
                   'class %s(%s):' % (b, a), '    def get(self):', '        return super().get() + 1', '%s = %s().get()' % (v, b)]
            self.vars['int'].append(v)
            return out
        if c == 10:     # property / staticmethod
            k = self.fresh('class')
            v = self.fresh('int')
            out = ['class %s:' % k, '    def __init__(self, w):', '        self._w = w', '    @property', '    def w(self):', '        return self._w * 2',
                   '    @staticmethod', '    def make():', '        return %s(%s)' % (k, self.int_lit()), '%s = %s.make().w' % (v, k)]
            self.vars['int'].append(v)
            return out
        if c == 11:     # isinstance / type names
            return ['print(isinstance(%s, int), type(%s).__name__, type(%s).__name__)' % (self.int_expr(1), self.str_lit(), r.choice(['[]', '{}', '()', 'None', '1.5']))]
        if c == 12:     # student exception class raised and caught by the student
            k = self.fresh('class') + 'Error'
            return ['class %s(Exception):' % k, '    pass', 'try:', '    raise %s(%s)' % (k, self.int_lit()), 'except %s as caught:' % k,
                    "    print('caught', caught.args)"]
        if c == 13:     # raise ... from inside try
            return ['try:', '    try:', '        [][%s]' % r.choice(['0', '1']), '    except IndexError as inner_error:',
                    "        raise ValueError('wrapped') from inner_error", 'except ValueError as outer_error:',
                    '    print(type(outer_error.__cause__).__name__)']
        if c == 14:     # try / finally with return
            self.funcs.append((f, 1, 'int'))
            return ['def %s(q):' % f, '    try:', '        return 10 // q', '    finally:', "        print('finally', q)"]
        if c == 15:     # format specs
            return ["print(f'{%s:>5}|{%s:<4}|{%s:.2f}|{%s!r}')" % (self.int_expr(1), self.str_lit(), r.choice(['1.005', '2.5', '0.0']), self.str_lit())]
        if c == 16 and self.allow_input:
            self.prompts += 1
            self.reads += 1
            v = self.fresh('int')
            out = ['try:', '    %s = int(input(%r))' % (v, PROMPT % self.prompts), 'except ValueError:', '    %s = -1' % v]
            self.vars['int'].append(v)
            return out
        if c == 17 and self.vars['list']:
            xs = r.choice(self.vars['list'])
            return ['print(*%s)' % xs, "print(%s, sep=', ')" % xs, 'if %s:' % xs, '    first, *rest = %s' % xs, '    print(first, rest)']
        if c == 18:     # string methods
            v = self.fresh('list')
            out = ["%s = %s.split()" % (v, self.str_lit()), "print(len(%s), %s.upper().count('A'), %s.replace('a', 'b'))" % (v, self.str_lit(), self.str_lit())]
            return out
        if c == 19:     # set operations
            return ['print(sorted({1, 2, 3} & {%s, 2}), sorted({1} | {%s}), 3 in {1, 2})' % (self.int_lit(), self.int_lit())]
        if c == 20:     # chained comparison, boolean short circuit, conditional expression
            v = self.fresh('int')
            out = ['%s = (1 if 0 < %s < 10 else 2) if %s or %s else 3' % (v, self.int_expr(1), self.cond(), self.cond())]
            self.vars['int'].append(v)
            return out
        # tuple / dict of tuples
        d = self.fresh('dict')
        self.vars['dict'].append(d)
        return ['%s = {(1, 2): %s, "k": (%s, %s)}' % (d, self.int_lit(), self.int_lit(), self.int_lit()), 'print(%s[(1, 2)], len(%s))' % (d, d)]

    def simple_or_compound(self, depth):
        r = self.r
        c = r.random()
        if depth >= 2:
            c = c * 0.62
        if c < 0.12:
            return self.print_stmt()
        if c < 0.2:
            return self.assign_int()
        if c < 0.27:
            return self.assign_str()
        if c < 0.32:
            return self.assign_list()
        if c < 0.36:
            return self.assign_dict()
        if c < 0.44:
            return self.mutate()
        if c < 0.47:
            return self.write_stmt() if self.allow_sys else self.print_stmt()
        if c < 0.51:
            return self.comp_stmt()
        if c < 0.55:
            return self.call_stmt()
        if c < 0.58:
            return self.input_stmt() if self.allow_input else self.print_stmt()
        if c < 0.62:
            return self.misc_stmt()
        if c < 0.69:
            return self.if_stmt(depth)
        if c < 0.75:
            return self.for_stmt(depth)
        if c < 0.79:
            return self.while_stmt(depth)
        if c < 0.85:
            return self.try_stmt(depth)
        if c < 0.89 and depth == 0:
            return self.def_stmt(depth)
        if c < 0.91 and depth == 0:
            return self.class_stmt(depth)
        if c < 0.925 and depth == 0:
            return self.gen_stmt()
        if c < 0.955 and depth == 0:
            return self.rich_stmt()
        if c < 0.975:
            return self.import_stmt()
        if depth == 0:
            return self.rich_stmt()
        return self.print_stmt()

    def program(self, n_stmts, planted_raise=False):
        stmts = []
        for _ in range(n_stmts):
            stmts.append(self.simple_or_compound(0))
        if planted_raise and self.allow_raise:
            pos = self.r.randint(0, len(stmts))
            stmts.insert(pos, self.raise_stmt())
        if self.imported:
            stmts.insert(0, ['import %s' % m for m in sorted(self.imported)])
        return stmts


def helper_module(rng):
    """A second student file: a few pure functions and a top-level print."""
    stmts = [['def hdouble(x):', '    return x * 2'],
             ['def hdiv(x):', '    return 100 // x'],
             ['def hshow(x):', "    print('helper', x)", '    return x + 1'],
             ['HELPER_CONSTANT = %d' % rng.randint(1, 9)],
             # module-level state changed through the module's own functions, and what the module knows about itself
             ['hcount = 0'],
             ['def hbump(x):', '    global hcount', '    hcount += x', '    return hcount'],
             ['def hwho(x):', '    return len(__name__) + x'],
             ['class HThing:', '    pass']]
    if rng.random() < 0.5:
        stmts.append(["print('helper loaded')"])
    return stmts, ['hdouble', 'hdiv', 'hshow', 'hbump', 'hwho']


DATA_FILE_TEXT = 'alpha\nbeta 2\n\ngamma  \nlast line without newline'


def gen_program(rng, size=None, allow_input=True, with_helper=False, planted_raise=False, with_data=False):
    size = size if size is not None else rng.randint(2, 9)
    helper = None
    files = {}
    if with_helper:
        hst, fns = helper_module(rng)
        helper = ('helper', fns)
        files['helper.py'] = hst
    g = ProgGen(rng, allow_input=allow_input, helper_module=helper, data_file='data.txt' if with_data else None)
    stmts = g.program(size, planted_raise=planted_raise)
    if with_data:
        files['data.txt'] = DATA_FILE_TEXT
        stmts.append(g.file_stmt())
    if with_helper and 'helper' not in g.imported:
        stmts.insert(0, ['import helper'])
        stmts.append(['print(helper.hdouble(%d))' % rng.randint(0, 5)])
    if with_helper and 'helper' in g.imported and rng.random() < 0.6:
        stmts.append(['print(helper.hbump(2), helper.hcount, helper.HThing.__module__, helper.hdouble.__module__, helper.__name__)'])
    files['answer.py'] = stmts
    return {'files': files, 'funcs': list(g.funcs), 'reads': g.reads}


# --------------------------------------------------------------------------- special termination classes

SPECIAL = {
    'exit_call': ["print('before')", "exit()"],
    'sys_exit': ["import sys", "print('before')", "sys.exit(2)"],
    'sys_exit_str': ["import sys", "sys.exit('goodbye')"],
    'raise_system_exit': ["x = 1", "raise SystemExit"],
    'quit_call': ["print('a')", "quit()"],
    'recursion': ["def rec(n):", "    return rec(n + 1) + 1", "print('start')", "rec(0)"],
    'recursion_method': ["class A:", "    def go(self, n):", "        return self.go(n + 1)", "A().go(1)"],
    'mutual_recursion': ["def a(n):", "    return b(n)", "def b(n):", "    return a(n)", "a(0)"],
    'syntax_error': ["x = 1", "y = = 2", "print(x)"],
    'syntax_unclosed': ["print('a'", "x = 2"],
    'indentation_error': ["def f():", "return 1", "f()"],
    'tab_error': ["if True:", "\tx = 1", "        y = 2"],
    'nul_byte': ["x = 1", "y = '\x00'", "print(x)"],
    'nul_byte_bare': ["x = 1\x00", "print(x)"],
    'blocked_compile': ["c = compile('1+1', 'f', 'eval')"],
    'blocked_eval': ["print('pre')", "v = eval('1+1')"],
    'blocked_exec': ["exec('x = 1')"],
    'blocked_globals': ["g = globals()"],
    'blocked_open_write': ["f = open('out.txt', 'w')"],
    'blocked_open_py': ["f = open('answer.py')"],
    'blocked_open_dot': ["f = open('./secret.txt')"],
    'import_pedal': ["import pedal"],
    'import_pedal_sub': ["from pedal.core.report import MAIN_REPORT"],
    'import_missing': ["import does_not_exist_module"],
    'raise_in_str': ["class E(Exception):", "    def __str__(self):", "        raise ValueError('str broken')",
                     "raise E('x')"],
    'raise_in_repr': ["class E(Exception):", "    def __repr__(self):", "        raise ValueError('repr broken')",
                      "raise E('x')"],
    'raise_str_returns_nonstr': ["class E(Exception):", "    def __str__(self):", "        return 5", "raise E('x')"],
    'raise_from': ["try:", "    1 / 0", "except ZeroDivisionError as z:", "    raise ValueError('chained') from z"],
    'raise_in_finally': ["try:", "    x = [][1]", "finally:", "    raise KeyError('fin')"],
    'raise_class_not_instance': ["raise ValueError"],
    'raise_non_exception': ["raise 5"],
    'exception_group': ["raise ExceptionGroup('grp', [ValueError(1), TypeError(2)])"],
    'name_error': ["print(undefined_name)"],
    'deep_traceback': ["def a(n):", "    if n == 0:", "        raise ValueError('deep')", "    return a(n - 1)",
                       "a(12)"],
    'key_error_tuple': ["d = {}", "d[(1, 2)]"],
    'unicode_error': ["b'\\xff'.decode('utf-8')"],
    'stop_iteration': ["next(iter([]))"],
    'generator_raise': ["def g():", "    yield 1", "    raise ValueError('gen')", "list(g())"],
    'empty_message': ["raise ValueError('')"],
    'lowercase_message': ["raise ValueError('lower case')"],
    'multiline_message': ["raise ValueError('line1\\nline2')"],
    'braces_message': ["raise ValueError('{curly} {0} {braces}')"],
    'os_error_args': ["raise OSError(2, 'No such file or directory', 'x.txt')"],
    'assert_false': ["assert 1 == 2, 'math is broken'"],
    'many_inputs_then_fail': ["values = []", "for i in range(45):", "    values.append(input('v? '))", "total = 1 // len(values[0:0])"],
    'stdout_close': ["import sys", "print('x')", "sys.stdout.close()"],
    'stdout_close_then_print': ["import sys", "print('x')", "sys.stdout.close()", "print('y')"],
    'del_builtin_use': ["print = None", "print('x')"],
}


def special_program(name):
    # one statement (possibly a whole compound statement) per list entry would be nicer for shrinking, but these
    # programs are minimal already: keep them as a single block so that indentation stays intact
    return {'files': {'answer.py': [list(SPECIAL[name])]}, 'funcs': [], 'reads': 0, 'special': name}
