"""Deterministic thread scheduler: real OS threads, but only the baton holder runs.

Every simulated thread owns a private lock used as a gate.  At every monitored LINE (or
INSTRUCTION) event the running thread asks the scheduler who runs next, releases that
thread's gate and blocks on its own.  The scheduler runs inside whichever thread is
parking: there is no scheduler thread and no real sleep.  Between two events exactly one
thread touches pedal state, so an interleaving is a pure function of the decision list.

Seams taken over while a scheduler is active (all restored by ``deactivate``):
  threading.Thread.start / join / is_alive      class-level wrappers
  pedal.sandbox.timeout.ctypes                  fake PyThreadState_SetAsyncExc
  threading.Event.wait, threading.Lock/RLock    only when called from student code
  time.sleep (through world.SLEEP_HOOK)         virtual sleeping
"""
import _thread
import sys
import threading

from sim import world
from sim.monitor import MONITOR

_alloc = _thread.allocate_lock
_orig_start = threading.Thread.start
_orig_join = threading.Thread.join
_orig_is_alive = threading.Thread.is_alive
_orig_event_wait = threading.Event.wait
_orig_Lock = threading.Lock
_orig_RLock = threading.RLock

ACTIVE = [None]

POLICIES = ('sticky', 'g-first', 's-first', 'uniform', 'pct', 'zombie-late', 'stall', 'forced')


class SimDeadlock(BaseException):
    """Raised in the grader thread when it parks and nothing can ever wake it."""


class ReplayDiverged(Exception):
    pass


class SimThread:
    __slots__ = ('index', 'thread', 'gate', 'state', 'join_target', 'deadline', 'wake_at', 'pending_exc',
                 'pending_delay', 'events', 'ident', 'budget', 'priority', 'frozen_until', 'blocked_on',
                 'async_landed', 'name', 'op_born', 'zombie', 'done_at', 'last_site', 'sent_site', 'student_events', 'line_events',
                 'reported_stopped')

    def __init__(self, index, thread):
        self.index = index
        self.thread = thread
        self.gate = _alloc()
        self.gate.acquire()
        self.state = 'runnable'
        self.join_target = None
        self.deadline = None
        self.wake_at = None
        self.pending_exc = None
        self.pending_delay = 0
        self.events = 0
        self.ident = None
        self.budget = None
        self.priority = 0
        self.frozen_until = None      # global event number before which this thread gets no CPU
        self.blocked_on = None
        self.async_landed = []
        self.name = 'T%d' % index
        self.op_born = None
        self.zombie = False
        self.done_at = None
        self.last_site = None
        self.sent_site = None
        self.student_events = 0
        self.line_events = 0
        self.reported_stopped = False    # is_alive() says False although the thread still runs (see Scheduler.join)


class Scheduler:
    def __init__(self, policy='sticky', rng=None, tick=0.001, forced=None, params=None):
        self.policy = policy
        self.rng = rng
        self.tick = tick
        self.params = params or {}
        self.threads = []
        self.by_thread = {}
        self.current = None
        self.nevents = 0
        self.trace = []              # run-length encoded [thread index, count]
        self.switches = []           # (global event number, from, to) where a runnable thread was pre-empted
        self.forced = dict((int(n), int(t)) for n, t in (forced or []))
        self.diverged = 0
        self.deadlock = False
        self.timer_fired = 0         # join deadlines that expired with the target still alive
        self.async_sent = 0
        self.async_sent_by_grader = 0
        self.async_landings = []     # (thread index, kind, file, func, line, global event)
        self.joins = 0
        self.clock_jumps = 0
        self.probe = {}
        self.op_index = None
        self.max_events = self.params.get('max_events', 60000)
        self.event_hook = None       # callable(thread_index, kind, code, line) for invariants
        self.jitter = self.params.get('jitter', True)
        # pct
        self.change_points = set(self.params.get('change_points', ()))
        self.stall = self.params.get('stall')          # (thread_index, from_event, to_event)
        self.fair = self.params.get('fair', 400)
        self._deadlock_for_grader = False
        self.starve = 0

    # ------------------------------------------------------------------ lifecycle
    def activate(self):
        main = SimThread(0, threading.current_thread())
        main.ident = threading.get_ident()
        main.name = 'G'
        self.threads.append(main)
        self.by_thread[main.thread] = main
        self.current = main
        MONITOR.cur = 0
        ACTIVE[0] = self
        threading.Thread.start = _sim_start
        threading.Thread.join = _sim_join
        threading.Thread.is_alive = _sim_is_alive
        threading.Event.wait = _sim_event_wait
        threading.Lock = _sim_lock_factory
        threading.RLock = _sim_rlock_factory
        import pedal.sandbox.timeout as T
        self._T = T
        self._saved_ctypes = T.ctypes
        T.ctypes = FakeCtypes(self)
        self._saved_threading = T.threading
        T.threading = ThreadingProxy(self)
        world.SLEEP_HOOK[0] = self.sleep
        MONITOR.yield_hook = self.yield_point

    def deactivate(self):
        MONITOR.yield_hook = None
        world.SLEEP_HOOK[0] = None
        self._T.ctypes = self._saved_ctypes
        self._T.threading = self._saved_threading
        threading.Thread.start = _orig_start
        threading.Thread.join = _orig_join
        threading.Thread.is_alive = _orig_is_alive
        threading.Event.wait = _orig_event_wait
        threading.Lock = _orig_Lock
        threading.RLock = _orig_RLock
        ACTIVE[0] = None

    # ------------------------------------------------------------------ bookkeeping
    def me(self):
        st = self.current
        return st

    def _log_run(self, idx):
        tr = self.trace
        if tr and tr[-1][0] == idx:
            tr[-1][1] += 1
        else:
            tr.append([idx, 1])

    def _is_runnable(self, st):
        s = st.state
        if st.frozen_until is not None:
            if self.nevents < st.frozen_until:
                return False
            st.frozen_until = None
        if st.budget is not None and st.budget <= 0:
            return False
        if self.stall and st.index == self.stall[0] and self.stall[1] <= self.nevents < self.stall[2]:
            return False
        if s == 'runnable':
            return True
        if s == 'join_wait':
            if st.join_target.state == 'done':
                return True
            if st.deadline is not None and world.CLOCK.now >= st.deadline:
                return True
            return False
        if s == 'sleeping':
            return world.CLOCK.now >= st.wake_at
        if s == 'drain':
            return False
        return False

    def _runnable(self):
        return [t for t in self.threads if self._is_runnable(t)]

    def _next_timed_wake(self):
        best = None
        for t in self.threads:
            if t.budget is not None and t.budget <= 0:
                continue
            w = None
            if t.state == 'join_wait' and t.deadline is not None and t.join_target.state != 'done':
                w = t.deadline
            elif t.state == 'sleeping':
                w = t.wake_at
            if w is not None and (best is None or w < best):
                best = w
        return best

    def pick(self, me):
        """Choose the next runner.  ``me`` is the thread making the decision (may be unable to run)."""
        while True:
            runnable = self._runnable()
            if runnable:
                break
            # nothing runnable: frozen / stalled threads thaw first, then the clock jumps
            thaw = [t for t in self.threads if t.frozen_until is not None and t.state != 'done'
                    and not (t.budget is not None and t.budget <= 0)]
            if thaw:
                for t in thaw:
                    t.frozen_until = None
                continue
            if self.stall and self.nevents < self.stall[2]:
                self.stall = None
                continue
            w = self._next_timed_wake()
            if w is not None:
                self.clock_jumps += 1
                world.CLOCK.now = max(world.CLOCK.now, w)
                continue
            drains = [t for t in self.threads if t.state == 'drain']
            if drains:
                drains[0].state = 'runnable'
                continue
            return None
        if len(runnable) == 1:
            return runnable[0]
        n = self.nevents
        # fairness (assumed only so that the grader's step count is meaningful): the grader is never
        # starved for more than ``fair`` consecutive events of other threads
        g = self.threads[0]
        if g in runnable:
            if self.starve >= self.fair:
                self.starve = 0
                return g
        chosen = self._pick_policy(me, runnable, n)
        if g in runnable and chosen is not g:
            self.starve += 1
        else:
            self.starve = 0
        return chosen

    def _pick_policy(self, me, runnable, n):
        if self.forced:
            want = self.forced.get(n)
            if want is not None:
                for t in runnable:
                    if t.index == want:
                        return t
                self.diverged += 1
            # default of forced mode: non-preemptive
            if me is not None and me in runnable:
                return me
            return runnable[0]
        pol = self.policy
        if pol == 'sticky' or pol == 'forced':
            if me is not None and me in runnable:
                return me
            return runnable[0]
        if pol == 'g-first':
            return runnable[0]
        if pol == 's-first':
            return runnable[-1]
        if pol == 'uniform':
            return self.rng.choice(runnable)
        if pol in ('pct', 'zombie-late', 'stall'):
            if n in self.change_points and me is not None:
                me.priority = min(t.priority for t in self.threads) - 1
            best = runnable[0]
            for t in runnable[1:]:
                if t.priority > best.priority:
                    best = t
            return best
        return runnable[0]

    def switch(self, me, nxt):
        if nxt is me:
            return
        if me is not None and self._is_runnable(me):
            self.switches.append((self.nevents, me.index, nxt.index))
        self.current = nxt
        MONITOR.cur = nxt.index
        nxt.gate.release()
        if me is not None:
            me.gate.acquire()
            # running again: whoever released the gate has set self.current = me
            if me.index == 0 and self._deadlock_for_grader:
                self._deadlock_for_grader = False
                me.state = 'runnable'
                raise SimDeadlock('grader thread parked and nothing can wake it')

    # ------------------------------------------------------------------ yield point (every monitored event)
    def yield_point(self, kind, code, line):
        me = self.current
        if me is None or me.ident != threading.get_ident():
            return None          # event in a thread the simulation does not own (never happens by construction)
        self.nevents += 1
        me.events += 1
        me.last_site = (code.co_filename, code.co_name, line)
        if kind == 'S':
            me.student_events += 1
        if kind != 'p':
            me.line_events += 1        # INSTRUCTION-granularity steps ('p') are not comparable with LINE budgets
        if me.budget is not None:
            me.budget -= 1
        if self.nevents > self.max_events:
            self.probe['max_events_hit'] = 1
            if me.index != 0:
                me.budget = 0
        j = 1.0
        if self.jitter and self.rng is not None:
            j = 0.5 + self.rng.random()
        world.CLOCK.now += self.tick * j
        self._log_run(me.index)
        hook = self.event_hook
        if hook is not None:
            hook(me.index, kind, code, line)
        nxt = self.pick(me)
        if nxt is None:
            self.deadlock = True
            if me.index == 0:
                raise SimDeadlock('no runnable thread')
            return None
        if nxt is not me:
            self.switch(me, nxt)
        # (re)scheduled: deliver a pending asynchronous exception at this boundary
        if me.pending_exc is not None:
            if me.pending_delay <= 0:
                exc = me.pending_exc
                me.pending_exc = None
                import os
                site = (me.index, kind, os.path.basename(code.co_filename), code.co_name, line, self.nevents, me.events)
                self.async_landings.append(site)
                me.async_landed.append(site)
                return exc() if isinstance(exc, type) else exc
            me.pending_delay -= 1
        return None

    # ------------------------------------------------------------------ thread operations
    def register(self, thread):
        st = SimThread(len(self.threads), thread)
        st.op_born = self.op_index
        if self.policy in ('pct', 'zombie-late', 'stall') and self.rng is not None:
            st.priority = self.rng.randint(1, 1000)
        self.threads.append(st)
        self.by_thread[thread] = st
        return st

    def thread_begin(self, st):
        st.ident = threading.get_ident()

    def thread_end(self, st):
        st.state = 'done'
        st.done_at = world.CLOCK.now
        nxt = self.pick(None)
        if nxt is None:
            self.deadlock = True
            return
        self.current = nxt
        MONITOR.cur = nxt.index
        nxt.gate.release()

    def park(self, me):
        """``me`` cannot continue (join / sleep / blocked / drain): run someone else until it can."""
        nxt = self.pick(me)
        if nxt is None:
            self.deadlock = True
            if me.index == 0:
                me.state = 'runnable'
                raise SimDeadlock('grader thread parked and nothing can wake it')
            # a student thread parks and nobody can run: the grader itself is waiting for ever (e.g. an untimed
            # join on this very thread).  Wake the grader with the verdict instead of hanging the whole child.
            g = self.threads[0]
            if g is not me and g.state != 'done':
                self._deadlock_for_grader = True
                self.current = g
                MONITOR.cur = 0
                g.gate.release()
            me.gate.acquire()
            return
        if nxt is not me:
            self.switch(me, nxt)
        me.state = 'runnable'
        me.join_target = None
        me.deadline = None

    def join(self, target, timeout):
        me = self.current
        self.joins += 1
        if target.state == 'done':
            return
        if timeout is not None and 'first_timed_join_at' not in self.probe:
            self.probe['first_timed_join_at'] = world.CLOCK.now - 1_000_000.0
        me.state = 'join_wait'
        me.join_target = target
        me.deadline = None if timeout is None else world.CLOCK.now + max(0.0, timeout)
        if target.zombie and timeout is None:
            self.probe['untimed_join_on_zombie'] = self.probe.get('untimed_join_on_zombie', 0) + 1
        self.park(me)
        if target.state != 'done':
            self.timer_fired += 1
            target.zombie = True
            self.probe['timer_at'] = (me.line_events, world.CLOCK.now)
            late = self.params.get('zombie_late')
            if late:
                target.frozen_until = self.nevents + late
        if me.pending_exc is not None and me.index != 0:
            # the waiter was itself given up on while it waited: CPython raises the pending asynchronous exception as
            # soon as the thread executes bytecode again, which is inside threading.py's join(), i.e. the exception
            # comes OUT OF the join() call (not at the next line of the caller)
            exc = me.pending_exc
            me.pending_exc = None
            site = (me.index, 'J', 'threading.py', 'join', 0, self.nevents, me.events)
            self.async_landings.append(site)
            me.async_landed.append(site)
            if target.state != 'done':
                # CPython 3.12's Thread._wait_for_tstate_lock has an `except:` branch meant for an exception that
                # arrives after lock.acquire() succeeded: `if lock.locked(): lock.release(); self._stop()`.  When the
                # exception arrives after the acquire timed out, the lock is "locked" all the same -- by the thread
                # being waited for -- so that thread is marked as stopped although it keeps running: from then on
                # its is_alive() is False.  (Observed with the real interpreter; modelled here.)
                target.reported_stopped = True
            raise (exc() if isinstance(exc, type) else exc)

    def sleep(self, seconds):
        me = self.current
        if me is None or me.ident != threading.get_ident():
            return None
        world.CLOCK.slept += max(0.0, float(seconds))
        me.state = 'sleeping'
        me.wake_at = world.CLOCK.now + max(0.0, float(seconds))
        self.park(me)
        return None

    def block(self, what):
        me = self.current
        me.state = 'blocked'
        me.blocked_on = what
        self.probe['student_blocked'] = self.probe.get('student_blocked', 0) + 1
        self.park(me)

    def drain(self, budget_each=5000):
        """Called by the grader at the end of a history: let every abandoned thread run until it is
        done, blocked, or has taken ``budget_each`` further events."""
        me = self.current
        others = [t for t in self.threads if t is not me and t.state != 'done']
        if not others:
            return
        for t in others:
            t.budget = budget_each
            t.frozen_until = None
        self.stall = None
        me.state = 'drain'
        self.park(me)
        for t in self.threads:
            t.budget = None if t.state == 'done' or t is me else 0

    def alive(self):
        return [t for t in self.threads if t.index != 0 and t.state != 'done']

    def switch_list(self):
        return [[n, to] for (n, frm, to) in self.switches]


# ---------------------------------------------------------------------------- patched seams

def _sim_start(self):
    sched = ACTIVE[0]
    if sched is None or sched.current is None or sched.current.ident != threading.get_ident():
        return _orig_start(self)
    st = sched.register(self)
    orig_run = self.run

    def run_wrapper():
        st.gate.acquire()            # parked until the scheduler picks this thread
        sched.thread_begin(st)
        try:
            orig_run()
        finally:
            sched.thread_end(st)
    self.run = run_wrapper
    _orig_start(self)
    st.ident = self.ident      # a started thread has an id (and is in threading._active) even before it first runs


def _sim_join(self, timeout=None):
    sched = ACTIVE[0]
    if sched is not None:
        st = sched.by_thread.get(self)
        if st is not None and sched.current is not None and sched.current.ident == threading.get_ident():
            return sched.join(st, timeout)
    return _orig_join(self, timeout)


def _sim_is_alive(self):
    sched = ACTIVE[0]
    if sched is not None:
        st = sched.by_thread.get(self)
        if st is not None:
            return st.state != 'done' and not st.reported_stopped
    return _orig_is_alive(self)


def _from_student():
    f = sys._getframe(2)
    return f.f_code.co_filename in MONITOR.student_files


class SimLock:
    def __init__(self):
        self.owner = None

    def acquire(self, blocking=True, timeout=-1):
        sched = ACTIVE[0]
        if self.owner is None:
            self.owner = sched.current if sched else True
            return True
        if not blocking:
            return False
        sched.block('lock')
        return True

    def release(self):
        self.owner = None

    __enter__ = acquire

    def __exit__(self, *a):
        self.release()

    def locked(self):
        return self.owner is not None


def _sim_lock_factory(*a, **k):
    if ACTIVE[0] is not None and _from_student():
        return SimLock()
    return _orig_Lock(*a, **k)


def _sim_rlock_factory(*a, **k):
    return _orig_RLock(*a, **k)


def _sim_event_wait(self, timeout=None):
    sched = ACTIVE[0]
    if sched is not None and sched.current is not None and sched.current.ident == threading.get_ident() \
            and sched.current.index != 0 and not self.is_set() and _from_student():
        if timeout is None:
            sched.block('event')
            return True
        sched.sleep(timeout)
        return self.is_set()
    return _orig_event_wait(self, timeout)


class _FakePythonApi:
    def __init__(self, sched):
        self.sched = sched

    def PyThreadState_SetAsyncExc(self, tid, exc):
        sched = self.sched
        n = 0
        for st in sched.threads:
            if st.ident == tid and st.state != 'done':
                if exc == 0 or exc is None:
                    st.pending_exc = None
                else:
                    st.pending_exc = exc
                    if st.sent_site is None:
                        # where the thread is at the instant it is given up on: its whole stack (it is parked in the
                        # monitoring callback right now), innermost frame first, simulator frames left out
                        stack = []
                        fr = sys._current_frames().get(tid)
                        while fr is not None and len(stack) < 40:
                            fn = fr.f_code.co_filename
                            if '/verif/sim/' not in fn and 'threading.py' not in fn:
                                stack.append((fn.rsplit('/', 1)[-1], fr.f_code.co_name))
                            fr = fr.f_back
                        st.sent_site = {'stack': stack, 'student_events': st.student_events,
                                        'started': st.last_site is not None}
                    d = sched.params.get('async_delay')
                    if d is None and sched.rng is not None:
                        d = sched.rng.choice([0, 0, 0, 1, 2])
                    st.pending_delay = d or 0
                    if 'delay' not in st.sent_site:
                        st.sent_site['delay'] = st.pending_delay     # own events the thread still executes before it lands
                    sched.async_sent += 1
                    if sched.current is not None and sched.current.index == 0:
                        sched.async_sent_by_grader += 1      # pedal gives up on an execution (vs. a student thread on its nested import)
                n += 1
        return n


class FakeCtypes:
    """Stands in for the ``ctypes`` module inside pedal.sandbox.timeout."""

    def __init__(self, sched):
        self.pythonapi = _FakePythonApi(sched)

    @staticmethod
    def c_long(x):
        return x

    @staticmethod
    def py_object(x):
        return x


class ThreadingProxy:
    """Stands in for the ``threading`` module inside pedal.sandbox.timeout: everything is the real
    module except ``_active``, which is derived from the scheduler's state.  (The real table is
    updated by a finishing thread's own bootstrap code some time after the simulation regards the
    thread as done -- an uncontrolled race that would leak real nondeterminism into the run.)"""

    def __init__(self, sched):
        object.__setattr__(self, '_sched', sched)

    def __getattr__(self, name):
        if name == '_active':
            sched = object.__getattribute__(self, '_sched')
            return {st.ident: st.thread for st in sched.threads if st.state != 'done' and st.ident is not None}
        return getattr(threading, name)
