"""Engine ``grd``: whole gradings through ``Bundle.run_ics_bundle`` and an environment, run as
histories in one process, with crashes injected into the instructor script (or into pedal
code beneath it).  Every grading is also run as the FIRST grading of a pristine forked child;
the two results must be equal.
"""
import argparse
import random
import re
import sys

from sim import world
from sim.monitor import MONITOR
from sim.refexec import safe_str

ADDR = re.compile(r'0x[0-9a-fA-F]{6,}')
INSTRUCTOR_FILE = 'instructor.py'


def normalise(text):
    if not isinstance(text, str):
        return text
    return ADDR.sub('0x..', text)


def grade_once(g):
    """One grading: returns a plain-data record."""
    from pedal.command_line.modes import Bundle
    from pedal.core.submission import Submission
    cfg = argparse.Namespace(threaded=False, resolver='resolve', alternate_filenames=None)
    sub = Submission(main_file='answer.py', main_code=g['submission'], instructor_file=INSTRUCTOR_FILE)
    b = Bundle(cfg, g['script'], sub)
    b.environment = g.get('env', 'standard')
    random.seed(g.get('rng', 12345))
    from pedal.core.report import MAIN_REPORT
    world.install_seeded_sets(MAIN_REPORT, g.get('rng', 12345))
    MONITOR.reset_counts()
    fired_before = len(MONITOR.fired)
    MONITOR.arm(g.get('fault'))
    rec = {'raised': None}
    saved_argv = list(sys.argv)
    try:
        try:
            b.run_ics_bundle()
        finally:
            MONITOR.arm(None)
    except BaseException as e:  # noqa -- a batch grader sees everything that escapes
        rec['raised'] = {'cls': type(e).__name__, 'str': normalise(safe_str(e))[:200]}
    rec['fired'] = [dict(f) for f in MONITOR.fired[fired_before:]]
    rec['events'] = (MONITOR.nS, MONITOR.nI, MONITOR.nP)
    rec['argv_restored'] = list(sys.argv) == saved_argv
    r = b.result
    if r is not None:
        res = r.resolution
        rec['output'] = normalise(r.output)
        rec['error'] = None if r.error is None else {'cls': type(r.error).__name__, 'str': normalise(safe_str(r.error))[:200]}
        if res is None:
            rec['resolution'] = None
        else:
            rec['resolution'] = {k: normalise(getattr(res, k, None)) if isinstance(getattr(res, k, None), str) else getattr(res, k, None)
                                 for k in ('label', 'title', 'message', 'correct', 'score', 'category', 'hide_correctness')}
            for k, v in list(rec['resolution'].items()):
                if not isinstance(v, (str, int, float, bool, type(None))):
                    rec['resolution'][k] = normalise(repr(v))
    else:
        rec['output'] = None
        rec['error'] = None
        rec['resolution'] = None
    return rec


def comparable(rec):
    res = rec.get('resolution')
    return {
        'raised': rec['raised'] and rec['raised']['cls'],
        'error': rec['error'] and (rec['error']['cls'], rec['error']['str']),
        'output': rec['output'],
        'resolution': None if res is None else tuple((k, res.get(k)) for k in ('label', 'title', 'message', 'correct', 'score')),
    }


def execute(spec):
    """spec = {'gradings': [ {script, submission, env, fault, rng}, ... ]}"""
    world.install_console()
    world.install_virtual_time()
    MONITOR.configure(student_files=['answer.py'], instructor_files=[INSTRUCTOR_FILE])
    MONITOR.begin(digest=spec.get('digest', True))
    # A "crashed grading" is an instructor script that dies: at one of its own lines, or inside a pedal call it
    # made.  Crash points inside the sandbox's patched window (student code is executing, sys.stdout/time.sleep
    # are borrowed) are failures of student code or of pedal's own cleanup, which C04/C05/C14 cover; they are
    # not eligible here.
    import time
    MONITOR.veto = lambda: time.sleep is not world.sim_sleep or sys.gettrace() is not None
    out = []
    try:
        before = world.snapshot_globals()
        for g in spec['gradings']:
            rec = grade_once(g)
            problems, _ = world.diff_globals(before)
            rec['global_problems'] = problems
            out.append(rec)
    finally:
        MONITOR.veto = None
        MONITOR.end()
    return {'gradings': out, 'digest': MONITOR.digest()}
