"""Candidate generators for minimisation.  A move yields a strictly smaller spec; the
harness keeps it only if the same violation signature is still reported."""
import copy


def _clone(spec):
    return copy.deepcopy(spec)


def sbx_moves(spec):
    ops = spec['ops']
    # 1. drop an op (a candidate that loses the violation is rejected by the caller)
    for i in reversed(range(len(ops))):
        if len(ops) == 1:
            break
        c = _clone(spec)
        del c['ops'][i]
        yield c
    # 2. drop statements of each file, biggest chunks first
    for name, stmts in spec['files'].items():
        if not isinstance(stmts, list):
            continue
        n = len(stmts)
        size = n // 2
        while size >= 1:
            for start in range(0, n, size):
                if n - size < 1 and name == spec.get('main', 'answer.py'):
                    continue
                c = _clone(spec)
                del c['files'][name][start:start + size]
                # a fault position counts line events: try the same k and every smaller k
                yield c
                for o in c['ops']:
                    f = o.get('fault')
                    if f and f.get('k', 1) > 1:
                        for k in range(1, f['k']):
                            c2 = _clone(c)
                            for o2 in c2['ops']:
                                if o2.get('fault'):
                                    o2['fault']['k'] = k
                            yield c2
                        break
            size //= 2
    # 3. simplify configuration
    cfg = spec.get('config', {})
    if cfg.get('tracer', 'none') != 'none':
        c = _clone(spec)
        c['config']['tracer'] = 'none'
        if 'meta' in c:
            c['meta']['tracer'] = 'none'
        yield c
    for i, o in enumerate(ops):
        if o.get('inputs'):
            c = _clone(spec)
            c['ops'][i]['inputs'] = []
            yield c
    # 4. drop helper files that are not needed
    for name in list(spec['files']):
        if name != spec.get('main', 'answer.py') and len(spec['files']) > 1:
            c = _clone(spec)
            del c['files'][name]
            yield c
