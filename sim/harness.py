"""Batch driver shared by all checks: worker pool, aggregation, known-finding matching,
minimisation, replay files, evidence, exit codes.

A *check module* provides
    ID, LEVEL                          property id, evidence level
    tasks(base_seed, tier)             -> list of small picklable task descriptors
    run_task(task)                     -> task result dict (executed in a worker; forks per run)
    run_spec(spec)                     -> list of violations for one explicit spec (used by shrink/replay)
    shrink_moves(spec)                 -> iterator of smaller candidate specs (optional)
    RULE, ASSUMPTIONS, COMPONENTS      evidence text
A task result is
    {'runs': int, 'violations': [{'sig','detail','spec'}], 'counters': {name: int},
     'sets': {name: [hashable,...]}, 'samples': [...], 'harness': [str,...], 'virtual_s': float}
"""
import collections
import concurrent.futures as cf
import hashlib
import json
import multiprocessing
import os
import sys
import time
import traceback

from sim import findings, world
from sim.world import HarnessError, VERIF

_real = world._real_monotonic


def _worker_init():
    world.setup_template()


def _worker_run(args):
    modname, task = args
    mod = sys.modules.get(modname) or __import__(modname, fromlist=['x'])
    try:
        return mod.run_task(task)
    except world.ChildFailure as e:
        return {'runs': 0, 'violations': [], 'counters': {}, 'sets': {}, 'samples': [],
                'harness': ['task %r: child failure: %s' % (task.get('id'), e)], 'virtual_s': 0.0}
    except BaseException as e:
        return {'runs': 0, 'violations': [], 'counters': {}, 'sets': {}, 'samples': [],
                'harness': ['task %r: %s' % (task.get('id'), ''.join(traceback.format_exception(type(e), e, e.__traceback__))[-3000:])],
                'virtual_s': 0.0}


class Aggregate:
    def __init__(self):
        self.runs = 0
        self.tasks = 0
        self.counters = collections.Counter()
        self.sets = collections.defaultdict(set)
        self.samples = []
        self.harness = []
        self.violations = []
        self.virtual_s = 0.0

    def add(self, res):
        self.tasks += 1
        self.runs += res.get('runs', 0)
        self.counters.update(res.get('counters', {}))
        for k, vs in res.get('sets', {}).items():
            s = self.sets[k]
            for v in vs:
                s.add(v if not isinstance(v, list) else tuple(v))
        if len(self.samples) < 6:
            self.samples.extend(res.get('samples', [])[:2])
        self.harness.extend(res.get('harness', []))
        self.violations.extend(res.get('violations', []))
        self.virtual_s += res.get('virtual_s', 0.0)


def run_tasks(check, tasks, workers, budget_s):
    """Run tasks on a fork pool until done or the wall-clock budget is spent."""
    agg = Aggregate()
    t0 = _real()
    ctx = multiprocessing.get_context('fork')
    modname = check.__name__
    pending = collections.deque(tasks)
    skipped = 0
    with cf.ProcessPoolExecutor(max_workers=workers, mp_context=ctx, initializer=_worker_init) as pool:
        live = set()
        try:
            while pending or live:
                while pending and len(live) < workers * 3:
                    if _real() - t0 > budget_s:
                        skipped += len(pending)
                        pending.clear()
                        break
                    live.add(pool.submit(_worker_run, (modname, pending.popleft())))
                if not live:
                    break
                done, live = cf.wait(live, timeout=600, return_when=cf.FIRST_COMPLETED)
                if not done:
                    raise HarnessError('worker pool made no progress for 600 s')
                for fut in done:
                    agg.add(fut.result())
        except cf.process.BrokenProcessPool as e:
            raise HarnessError('worker process died: %r' % (e,))
    agg.wall_s = _real() - t0
    agg.skipped_tasks = skipped
    return agg


# ---------------------------------------------------------------------------- shrinking

def shrink(check, spec, sig, budget_s=60.0, max_steps=400):
    """Greedy minimisation: accept a candidate iff the same signature is still reported."""
    t0 = _real()
    steps = 0
    moves = getattr(check, 'shrink_moves', None)
    if moves is None:
        return spec, 0
    improved = True
    while improved and _real() - t0 < budget_s and steps < max_steps:
        improved = False
        for cand in moves(spec):
            steps += 1
            if _real() - t0 > budget_s or steps >= max_steps:
                break
            try:
                vs = check.run_spec(cand)
            except world.ChildFailure:
                continue
            if any(v['sig'] == sig for v in vs):
                spec = cand
                improved = True
                break
    return spec, steps


def write_replay(check, spec, violation, seed, tier):
    d = os.path.join(VERIF, 'replays')
    os.makedirs(d, exist_ok=True)
    h = hashlib.blake2b(json.dumps([violation['sig'], spec], sort_keys=True, default=str).encode(), digest_size=6).hexdigest()
    path = os.path.join(d, '%s-%s.json' % (check.ID, h))
    with open(path, 'w') as f:
        json.dump({'property': check.ID, 'check': check.__name__, 'signature': violation['sig'],
                   'detail': violation.get('detail'), 'seed': seed, 'tier': tier, 'spec': spec},
                  f, indent=1, sort_keys=True, default=str)
    return path


def replay(path):
    with open(path) as f:
        rp = json.load(f)
    modname = rp['check']
    check = __import__(modname, fromlist=['x'])
    world.setup_template()
    vs = check.run_spec(rp['spec'])
    sigs = [v['sig'] for v in vs]
    print('replay of %s: expecting %s' % (path, rp['signature']))
    for v in vs:
        print('  reproduced: %s -- %s' % (v['sig'], v.get('detail')))
    if rp['signature'] in sigs:
        known = findings.match(rp['property'], rp['signature'])
        if known:
            print('KNOWN-FINDING: property=%s %s' % (rp['property'], known.get('what', rp['signature'])))
            return 0
        print('VIOLATION property=%s replay=%s' % (rp['property'], path))
        return 1
    print('replay did not reproduce the recorded violation signature')
    return 0 if not vs else 1


# ---------------------------------------------------------------------------- evidence

def write_evidence(check, tier, seed, agg, extra_cov, n_viol, n_known):
    # evidence/ describes runs against /repo itself; a run against a scratch copy (VERIF_REPO=..., used to try
    # seeded changes without touching /repo) writes its evidence next to the replays, which are not committed
    sub = 'evidence' if world.REPO == os.path.realpath('/repo') else os.path.join('replays', 'evidence-of-scratch-runs')
    os.makedirs(os.path.join(VERIF, sub), exist_ok=True)
    path = os.path.join(VERIF, sub, '%s.json' % check.ID)
    wall = getattr(agg, 'wall_s', 0.0)
    cov = {
        'evaluations': int(agg.runs),
        'distinct_nontrivial': int(len(agg.sets.get('distinct_nontrivial', ()))),
        'rule': check.RULE,
        'samples': agg.samples[:4] or ['(no sample recorded)'],
        'tasks': agg.tasks,
        'tasks_skipped_by_budget': getattr(agg, 'skipped_tasks', 0),
        'simulated_runs_per_hour': int(agg.runs / wall * 3600) if wall > 0 else 0,
        'simulated_virtual_seconds': round(agg.virtual_s, 3),
        'counters': {k: int(v) for k, v in sorted(agg.counters.items())},
        'distinct': {k: len(v) for k, v in sorted(agg.sets.items())},
        'components': check.COMPONENTS,
        'known_findings_seen': n_known,
        'harness_errors': len(agg.harness),
    }
    cov.update(extra_cov or {})
    ev = {'property_id': check.ID, 'tier': tier, 'seed': int(seed), 'level': check.LEVEL,
          'coverage': cov, 'assumptions': check.ASSUMPTIONS, 'wall_s': round(wall, 2),
          'violations': int(n_viol)}
    try:
        import jsonschema
        with open('/root/.vp/EVIDENCE.schema.json') as f:
            schema = json.load(f)
        jsonschema.validate(ev, schema)
    except ImportError:
        pass
    except FileNotFoundError:
        pass
    tmp = path + '.tmp'
    with open(tmp, 'w') as f:
        json.dump(ev, f, indent=1, sort_keys=True, default=str)
    os.replace(tmp, path)
    return path


# ---------------------------------------------------------------------------- top level

def drive(check, tier, seed, workers=None, budget_s=None):
    """Run one check; returns the process exit code."""
    world.setup_template()
    workers = workers or min(16, os.cpu_count() or 4)
    budget_s = budget_s or check.BUDGET[tier]
    print('check %s tier=%s VERIF_SEED=%d workers=%d repo=%s' % (check.ID, tier, seed, workers, world.REPO))
    sys.stdout.flush()
    tasks = check.tasks(seed, tier)
    agg = run_tasks(check, tasks, workers, budget_s)
    # determinism self-test on a sample of tasks: same seed twice -> same digests & verdicts
    det = getattr(check, 'determinism_sample', None)
    if det is not None:
        sample = det(tasks)
        a = run_tasks(check, sample, workers, budget_s)
        b = run_tasks(check, list(reversed(sample)), max(2, workers // 2), budget_s)
        da, db = sorted(a.sets.get('digests', ())), sorted(b.sets.get('digests', ()))
        sa = sorted(v['sig'] for v in a.violations)
        sb_ = sorted(v['sig'] for v in b.violations)
        if da != db or sa != sb_:
            agg.harness.append('nondeterminism: digest sets differ between two executions of the same seeds '
                               '(%d vs %d digests, %d differing)' % (len(da), len(db), len(set(da) ^ set(db))))
        agg.counters['determinism_selftest_tasks'] = len(sample)
        agg.counters['determinism_selftest_digests_compared'] = len(da)
    # classify violations
    by_sig = collections.OrderedDict()
    for v in agg.violations:
        by_sig.setdefault(v['sig'], []).append(v)
    entries = findings.open_entries(check.ID)
    unknown = []
    known_seen = collections.OrderedDict()
    for sig, vs in by_sig.items():
        e = findings.match(check.ID, sig, entries)
        if e is not None:
            known_seen[sig] = (e, len(vs))
        else:
            unknown.append((sig, vs))
    per_entry = collections.OrderedDict()
    for sig, (e, n) in known_seen.items():
        key = e.get('signature') or e.get('signature_glob') or ' | '.join(e.get('signature_globs') or [])
        ent = per_entry.setdefault(key, [e, 0, []])
        ent[1] += n
        ent[2].append(sig)
    for key, (e, n, sigs) in per_entry.items():
        print('KNOWN-FINDING: property=%s %s [listed as %s; seen %d times under %d signature(s); witness %s]' % (
            check.ID, e.get('what', ''), key, n, len(sigs), e.get('replay', '-')))
    if os.environ.get('VERIF_SAVE_KNOWN') == '1':
        # maintenance aid: (re)generate minimised witness replays for the listed findings
        for sig, (e, n) in known_seen.items():
            v = sorted(by_sig[sig], key=lambda v: len(json.dumps(v['spec'], default=str)))[0]
            try:
                spec, _ = shrink(check, v['spec'], sig, budget_s=30.0)
            except Exception:
                spec = v['spec']
            print('known-witness: %s -> %s' % (sig, write_replay(check, spec, v, seed, tier)))
    exit_code = 0
    reported = 0
    for sig, vs in unknown:
        vs.sort(key=lambda v: len(json.dumps(v['spec'], default=str)))
        v = vs[0]
        spec = v['spec']
        if reported < 6:
            try:
                spec, steps = shrink(check, spec, sig, budget_s=45.0 if tier == 'quick' else 120.0)
            except Exception as e:  # shrinking is best effort
                print('note: shrinking failed: %r' % (e,))
        path = write_replay(check, spec, v, seed, tier)
        print('violation: %s -- %s (seen %d times)' % (sig, v.get('detail'), len(vs)))
        print('VIOLATION property=%s replay=%s' % (check.ID, path))
        reported += 1
        exit_code = 1
    extra = check.evidence_extra(agg) if hasattr(check, 'evidence_extra') else {}
    extra['violation_signatures'] = [s for s, _ in unknown]
    extra['known_finding_signatures'] = list(known_seen)
    if agg.runs > 0:
        try:
            path = write_evidence(check, tier, seed, agg, extra, len(unknown), len(known_seen))
            print('evidence: %s (runs=%d, distinct_nontrivial=%d, wall=%.1fs, %.0f runs/h)' % (
                path, agg.runs, len(agg.sets.get('distinct_nontrivial', ())), agg.wall_s,
                agg.runs / max(agg.wall_s, 1e-9) * 3600))
        except Exception as e:
            agg.harness.append('evidence could not be written: %r' % (e,))
    else:
        agg.harness.append('no runs executed')
    if agg.harness:
        for h in agg.harness[:10]:
            print('HARNESS: %s' % h)
        if exit_code == 0:
            exit_code = 2
    warn = getattr(check, 'probe_warnings', None)
    if warn is not None:
        for w in warn(agg):
            print('warning: %s' % w)
    print('done: %s exit=%d' % (check.ID, exit_code))
    return exit_code
