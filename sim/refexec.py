"""Reference executor: the same source run as ``__main__`` by plain CPython, behind the
same I/O seams (stdout object, input feeder) and with the same injected fault.

It is the oracle for C06 (observational equivalence), tells C04 whether an injected
fault escaped the student program or was swallowed by the student's own ``try``, and
its I/O event log is what the C15 model is computed from (never pedal's own record).
"""
import builtins
import io
import sys
import types

from sim.monitor import MONITOR

DEFAULT_INPUT = '0'


class RefOut:
    """stdout stand-in that logs every write"""

    def __init__(self, events):
        self.events = events
        self.closed = False
        self.encoding = 'utf-8'

    def write(self, s):
        if self.closed:
            raise ValueError("I/O operation on closed file.")
        if not isinstance(s, str):
            raise TypeError("string argument expected, got '%s'" % type(s).__name__)
        if s:
            self.events.append(('out', s))
        return len(s)

    def writelines(self, lines):
        for ln in lines:
            self.write(ln)

    def flush(self):
        if self.closed:
            raise ValueError("I/O operation on closed file.")

    def close(self):
        self.closed = True

    def isatty(self):
        return False

    def getvalue(self):
        return ''.join(e[1] for e in self.events if e[0] == 'out')


def canon(value, depth=0, student_files=('answer.py', 'helper.py')):
    """Canonical, comparable form of a student value: (type name, ==-relevant content)."""
    if depth > 6:
        return ('...',)
    t = type(value)
    if value is None or t in (bool, int, float, str, bytes, complex):
        if t is float and value != value:
            return ('float', 'nan')
        return (t.__name__, value)
    if t in (list, tuple):
        return (t.__name__, tuple(canon(v, depth + 1) for v in value))
    if t in (set, frozenset):
        return (t.__name__, tuple(sorted((canon(v, depth + 1) for v in value), key=repr)))
    if t is dict:
        return ('dict', tuple((canon(k, depth + 1), canon(v, depth + 1)) for k, v in value.items()))
    if t is range:
        return ('range', (value.start, value.stop, value.step))
    if isinstance(value, io.IOBase):
        return ('file-object',)        # a handle, not data: pedal serves submission files from memory (StringIO)
    if isinstance(value, types.ModuleType):
        return ('module', value.__name__)
    if isinstance(value, type):
        return ('class', value.__name__)
    if callable(value) and hasattr(value, '__name__'):
        if value.__name__ in ('_input', '_input_tracker'):
            return ('callable', 'input')       # the input seam of either side (a program may alias it: read = input)
        return ('callable', value.__name__)
    if isinstance(value, BaseException):
        try:
            s = str(value)
        except BaseException:
            s = '<unprintable>'
        return ('exception', t.__name__, s)
    d = getattr(value, '__dict__', None)
    if isinstance(d, dict):
        return ('obj', t.__name__, tuple((k, canon(v, depth + 1)) for k, v in sorted(d.items())))
    return ('other', t.__name__)


def student_line(exc, student_files):
    """(file, line) of the innermost traceback entry located in a student file."""
    tb = exc.__traceback__
    found = None
    while tb is not None:
        fn = tb.tb_frame.f_code.co_filename
        if fn in student_files:
            found = (fn, tb.tb_lineno)
        tb = tb.tb_next
    if found is None and isinstance(exc, SyntaxError) and exc.filename in student_files:
        found = (exc.filename, exc.lineno)
    return found


def innermost_is_student(exc, student_files):
    tb = exc.__traceback__
    last = None
    while tb is not None:
        last = tb
        tb = tb.tb_next
    if last is None:
        return isinstance(exc, SyntaxError)
    return last.tb_frame.f_code.co_filename in student_files


def safe_str(exc):
    try:
        return str(exc)
    except BaseException as e:
        return '<str() raised %s>' % type(e).__name__


class RefExecutor:
    def __init__(self, files, main='answer.py'):
        self.files = dict(files)
        self.main = main
        self.student_files = frozenset(files)
        self.modules = {}
        self.queue = []
        self.events = []
        self.consumed = []
        b = dict(builtins.__dict__)
        b['input'] = self._input
        b['__import__'] = self._import
        self.builtins = b
        self.ns = {'__name__': '__main__', '__builtins__': b}

    # ---------------------------------------------------------------- seams
    def _input(self, prompt=''):
        if self.queue:
            value = self.queue.pop(0)
        else:
            value = DEFAULT_INPUT
        self.events.append(('in', prompt, value))
        self.consumed.append(value)
        return value

    def _import(self, name, globals=None, locals=None, fromlist=(), level=0):
        filename = name.replace('.', '/') + '.py'
        if level == 0 and filename in self.files and filename != self.main:
            if name not in self.modules:
                module = types.ModuleType(name)
                module.__dict__['__builtins__'] = self.builtins
                self.modules[name] = module
                try:
                    exec(compile(self.files[filename], filename, 'exec'), module.__dict__)
                except BaseException:
                    del self.modules[name]
                    raise
            return self.modules[name]
        return builtins.__import__(name, globals, locals, fromlist, level)

    def set_inputs(self, values):
        self.queue = [str(v) for v in values]

    # ---------------------------------------------------------------- execution
    def _guarded(self, thunk, fault):
        self.events = []
        self.consumed = []
        out = RefOut(self.events)
        saved = sys.stdout
        sys.stdout = out
        MONITOR.reset_counts()
        fired_before = len(MONITOR.fired)
        MONITOR.arm(fault)
        outcome = None
        value = None
        try:
            try:
                value = thunk()
            finally:
                MONITOR.arm(None)
                sys.stdout = saved
        except BaseException as e:   # noqa - the reference records everything
            loc = student_line(e, self.student_files)
            outcome = {'cls': type(e).__name__, 'mro': [c.__name__ for c in type(e).__mro__],
                       'str': safe_str(e), 'line': loc[1] if loc else None, 'file': loc[0] if loc else None,
                       'innermost_student': innermost_is_student(e, self.student_files)}
        fired = MONITOR.fired[fired_before:]
        return {
            'outcome': outcome,
            'value': value,
            'events': list(self.events),
            'text': ''.join(e[1] for e in self.events if e[0] == 'out'),
            'consumed': list(self.consumed),
            'nS': MONITOR.nS,
            'fired': [dict(f) for f in fired],
        }

    def run(self, source=None, filename=None, fault=None):
        if source is None:
            filename = filename or self.main
            source = self.files[filename]
        else:
            # instructor-supplied code: pedal compiles it under the instructor file's name
            filename = filename or 'instructor.py'

        def thunk():
            exec(compile(source, filename, 'exec'), self.ns)
        return self._guarded(thunk, fault)

    def call(self, fn, args=(), kwargs=None, fault=None, args_locals=None, kwargs_locals=None):
        kwargs = dict(kwargs or {})

        def thunk():
            a = list(args)
            for key, expr in (kwargs_locals or {}).items():
                kwargs[key] = eval(compile(expr, '<ref-kwarg>', 'eval'), self.ns)
            for i, expr in enumerate(args_locals or []):
                if expr is not None:
                    # args_locals: the argument is an expression evaluated in the student's namespace
                    val = eval(compile(expr, '<ref-arg>', 'eval'), self.ns)
                    if i < len(a):
                        a[i] = val
                    else:
                        a.append(val)
            return self.ns[fn](*a, **kwargs)
        return self._guarded(thunk, fault)

    def evaluate(self, expr, fault=None):
        def thunk():
            return eval(compile(expr, '<ref-eval>', 'eval'), self.ns)
        return self._guarded(thunk, fault)

    def student_names(self):
        return {k: v for k, v in self.ns.items() if not (k.startswith('__') and k.endswith('__'))}
