"""Seed handling: one integer decides everything.

``run_seed(base, i)`` derives the seed of the i-th run of a batch from the batch's
base seed (VERIF_SEED); ``streams(seed)`` derives independent ``random.Random``
sub-streams addressed by small integers -- never by ``hash()`` of a string, so
PYTHONHASHSEED cannot influence any generated choice.
"""
import random

MASK = (1 << 64) - 1

# sub-stream ids
PROGRAM, FAULTS, SCHEDULE, CONFIG, OPS, MISC = range(6)


def splitmix64(x):
    x = (x + 0x9E3779B97F4A7C15) & MASK
    z = x
    z = ((z ^ (z >> 30)) * 0xBF58476D1CE4E5B9) & MASK
    z = ((z ^ (z >> 27)) * 0x94D049BB133111EB) & MASK
    return (z ^ (z >> 31)) & MASK


def run_seed(base, i):
    return splitmix64((splitmix64(base & MASK) + i * 0x632BE59BD9B4E019) & MASK)


def stream(seed, ident):
    return random.Random(splitmix64((seed ^ (ident * 0xD6E8FEB86659FD93)) & MASK))


def streams(seed):
    return {i: stream(seed, i) for i in range(6)}
