"""Known findings: genuine defects of the tree under test that are recorded, not repaired.

``/verif/known_findings.json`` is committed and never written at run time.  Each open
entry names one violation *signature*; a violation whose signature is listed prints
``KNOWN-FINDING: property=<id> <what fails>`` and does not fail the check.  Any other
signature of the same property is still a VIOLATION.  ``fixed`` entries suppress nothing.
"""
import fnmatch
import json
import os

from sim.world import VERIF

PATH = os.path.join(VERIF, 'known_findings.json')


def load():
    if not os.path.exists(PATH):
        return []
    with open(PATH) as f:
        data = json.load(f)
    return data.get('findings', [])


def open_entries(prop):
    return [e for e in load() if e.get('property') == prop and e.get('status', 'open') == 'open']


def match(prop, signature, entries=None):
    """Exact signature match (or an explicit glob recorded in the file under 'signature_glob')."""
    entries = open_entries(prop) if entries is None else entries
    for e in entries:
        if e.get('signature') == signature:
            return e
        globs = ([e['signature_glob']] if e.get('signature_glob') else []) + list(e.get('signature_globs') or [])
        if any(fnmatch.fnmatchcase(signature, g) for g in globs):
            return e
    return None
