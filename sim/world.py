"""World: pristine template process, fork-per-run isolation, global-state snapshots.

A *template* process imports pedal from the working tree under test, installs the
monitoring seam and the virtual clock, and never executes student code.  Every run
forks the template, simulates, pickles a plain-data result over a pipe and ``_exit``s.
Zombie threads, leaked patches and class-attribute leaks therefore cannot contaminate
another run, and a replay starts from the identical state.
"""
import faulthandler
import io
import os
import pickle
import select
import signal
import sys
import time
import traceback

REPO = os.path.realpath(os.environ.get('VERIF_REPO', '/repo'))
VERIF = os.path.dirname(os.path.dirname(os.path.realpath(__file__)))

_real_time = time.time
_real_monotonic = time.monotonic
_real_sleep = time.sleep


class HarnessError(Exception):
    """Something is wrong with the verification machinery itself (exit code 2)."""


# ---------------------------------------------------------------------------- virtual clock

class VirtualClock:
    """Discrete-event clock.  ``time.sleep`` (as seen by everything in the child) only
    advances it; nothing in a simulated run ever really sleeps."""

    def __init__(self):
        self.now = 1_000_000.0
        self.slept = 0.0
        self.sleep_calls = 0

    def reset(self):
        self.now = 1_000_000.0
        self.slept = 0.0
        self.sleep_calls = 0

    def advance(self, d):
        if d > 0:
            self.now += d


CLOCK = VirtualClock()
SLEEP_HOOK = [None]   # the thread scheduler may take over sleeping


def sim_sleep(seconds=0):
    hook = SLEEP_HOOK[0]
    CLOCK.sleep_calls += 1
    if hook is not None:
        return hook(seconds)
    CLOCK.slept += max(0.0, float(seconds))
    CLOCK.advance(float(seconds))
    return None


def sim_time():
    return CLOCK.now


def sim_monotonic():
    return CLOCK.now - 999_000.0


_TEMPLATE_READY = False


def setup_template():
    """Import pedal from the tree under test and install the seams.  Idempotent."""
    global _TEMPLATE_READY
    if _TEMPLATE_READY:
        return
    if sys.path[0] != REPO:
        sys.path.insert(0, REPO)
    import pedal  # noqa
    pedal_dir = os.path.dirname(os.path.realpath(pedal.__file__))
    if not pedal_dir.startswith(REPO + os.sep):
        raise HarnessError("pedal imported from %s, not from the tree under test %s" % (pedal_dir, REPO))
    # every tool that environments use, imported now so that no run pays for it
    import pedal.sandbox  # noqa
    import pedal.sandbox.commands  # noqa
    import pedal.source  # noqa
    import pedal.tifa  # noqa
    import pedal.cait  # noqa
    import pedal.assertions  # noqa
    import pedal.resolvers  # noqa
    import pedal.resolvers.simple  # noqa
    import pedal.core.commands  # noqa
    import pedal.environments.standard  # noqa
    import pedal.environments.blockpy  # noqa
    import pedal.environments.terminal  # noqa
    import pedal.environments.gradescope  # noqa
    import pedal.command_line.modes  # noqa
    import linecache, traceback as _tb  # noqa
    from sim.monitor import MONITOR
    MONITOR.install(pedal_dir)
    _TEMPLATE_READY = True


def install_virtual_time():
    """Called at the start of every run, inside the forked child only: the harness's own
    pool / pipe machinery in the parent processes must keep the real clock (a frozen
    time.monotonic makes multiprocessing's poll(0) spin for ever).  It runs BEFORE pedal
    ever patches time.sleep, so what pedal must restore is sim_sleep (identity-checkable)."""
    time.sleep = sim_sleep
    time.time = sim_time
    time.monotonic = sim_monotonic
    time.perf_counter = sim_monotonic
    CLOCK.reset()
    # The cyclic garbage collector runs finalizers (e.g. io objects' close(), which pedal's capture buffer
    # implements in Python) whenever an allocation counter inherited from the parent process overflows: an
    # uncontrolled source of event reordering.  One collection now, none during the run.
    import gc
    gc.collect()
    gc.disable()


def pedal_dir():
    import pedal
    return os.path.dirname(os.path.realpath(pedal.__file__))


# ---------------------------------------------------------------------------- fork per run

class ChildFailure(Exception):
    def __init__(self, kind, detail):
        super().__init__("%s: %s" % (kind, detail))
        self.kind = kind
        self.detail = detail


def fork_run(fn, arg, timeout=60.0):
    """Run ``fn(arg)`` in a forked child and return its (picklable) result.

    A child that dies, hangs (killed after ``timeout`` real seconds) or returns garbage
    raises ChildFailure -- a harness error, never a pass and never a violation."""
    r, w = os.pipe()
    sys.stdout.flush()
    sys.stderr.flush()
    pid = os.fork()
    if pid == 0:
        status = 0
        try:
            os.close(r)
            # coverage.py (pedal's 'coverage' tracer style) saves a data file: give every child its own
            os.environ['COVERAGE_FILE'] = '/tmp/verif-cov-%d' % os.getpid()
            # the child never talks to the terminal: stdin is empty (a real input() sees EOF) and fd 1 is
            # discarded (pedal's allow_real_io writes to the stdout object captured when pedal was imported)
            try:
                dn = os.open(os.devnull, os.O_RDWR)
                os.dup2(dn, 0)
                os.dup2(dn, 1)
                sys.stdin = open(os.devnull)
            except Exception:
                pass
            # watchdog: SIGALRM dumps all stacks to the real stderr and then kills the child.
            # (faulthandler.dump_traceback_later must NOT be used here: if the parent had one
            # armed, re-arming after fork waits for a watchdog thread that does not exist.)
            try:
                signal.signal(signal.SIGALRM, signal.SIG_DFL)
                faulthandler.register(signal.SIGALRM, file=sys.__stderr__, all_threads=True, chain=True)
                signal.setitimer(signal.ITIMER_REAL, max(1.0, timeout - 2.0))
            except Exception:
                pass
            try:
                res = ('ok', fn(arg))
            except BaseException as e:  # harness bug inside the child
                res = ('exc', ''.join(traceback.format_exception(type(e), e, e.__traceback__))[-6000:])
            try:
                data = pickle.dumps(res, protocol=pickle.HIGHEST_PROTOCOL)
            except BaseException as e:
                data = pickle.dumps(('exc', 'unpicklable result: %r' % (e,)))
            with os.fdopen(w, 'wb', closefd=True) as f:
                f.write(data)
        except BaseException:
            status = 3
        finally:
            os._exit(status)
    os.close(w)
    chunks = []
    deadline = _real_monotonic() + timeout
    timed_out = False
    with os.fdopen(r, 'rb', closefd=True) as f:
        fd = f.fileno()
        while True:
            remaining = deadline - _real_monotonic()
            if remaining <= 0:
                timed_out = True
                break
            ready, _, _ = select.select([fd], [], [], remaining)
            if not ready:
                timed_out = True
                break
            b = os.read(fd, 1 << 16)
            if not b:
                break
            chunks.append(b)
    _cov = '/tmp/verif-cov-%d' % pid
    if timed_out:
        try:
            os.kill(pid, signal.SIGKILL)
        except ProcessLookupError:
            pass
        os.waitpid(pid, 0)
        raise ChildFailure('timeout', 'child exceeded %.0fs wall clock' % timeout)
    _, st = os.waitpid(pid, 0)
    try:
        os.unlink(_cov)
    except OSError:
        pass
    _cwd = '/tmp/verif-cwd-%d' % pid
    if os.path.isdir(_cwd):
        import shutil
        shutil.rmtree(_cwd, ignore_errors=True)
    data = b''.join(chunks)
    if not data:
        raise ChildFailure('died', 'child exited with status %r and no result' % (st,))
    try:
        tag, val = pickle.loads(data)
    except Exception as e:
        raise ChildFailure('garbage', repr(e))
    if tag != 'ok':
        raise ChildFailure('exception', val)
    return val


# ---------------------------------------------------------------------------- console

class Console(io.StringIO):
    """Stands in for the grader's terminal during a run, so that text which leaks past
    the sandbox is observable."""
    name = '<sim-console>'


def install_console():
    out, err = Console(), Console()
    sys.stdout, sys.stderr = out, err
    return out, err


# ---------------------------------------------------------------------------- global state

def snapshot_globals():
    """The process-wide state C05 names: stdout, module table, time.sleep, trace fn."""
    import threading
    return {
        'stdout': sys.stdout,
        'sleep': time.sleep,
        'trace': sys.gettrace(),
        'ttrace': threading.gettrace(),
        'modules': dict(sys.modules),
        'argv': list(sys.argv),
    }


def diff_globals(before, sandbox=None, lazy_ok=True):
    """Compare the current process-wide state with ``before``.

    Returns (problems, tolerated): ``problems`` is a list of short strings (empty = restored).
    New ``sys.modules`` keys are tolerated only when they are ordinary modules imported
    lazily (by pedal or by student code importing an allowed stdlib module) -- a leaked
    ``patch.dict`` always shows up as a replaced/mock entry or a missing pre-existing key,
    because ``patch.dict`` restores all-or-nothing."""
    import threading
    import types
    problems = []
    tolerated = []
    if sys.stdout is not before['stdout']:
        problems.append('stdout-not-restored')
    if time.sleep is not before['sleep']:
        problems.append('sleep-not-restored')
    if sys.gettrace() is not before['trace']:
        problems.append('trace-not-restored')
    if threading.gettrace() is not before['ttrace']:
        problems.append('threading-trace-not-restored')
    now = sys.modules
    old = before['modules']
    for name, module in old.items():
        cur = now.get(name, None)
        if cur is not module:
            problems.append('module-replaced:%s' % name if name in now else 'module-missing:%s' % name)
    overridden = set()
    if sandbox is not None:
        try:
            for name, value in sandbox._module_overrides.items():
                if name != '__builtins__' and value is not True:
                    overridden.add(name)
        except Exception:
            pass
    for name in now.keys() - old.keys():
        module = now[name]
        if name in overridden or not isinstance(module, types.ModuleType) \
                or type(module).__module__.startswith('pedal.') \
                or getattr(module, '__spec__', None) is None and getattr(module, '__file__', None) is None:
            problems.append('module-leaked:%s' % name)
        else:
            tolerated.append(name)
    return problems, tolerated


# ---------------------------------------------------------------------------- address-ordered sets

class SeededSet(set):
    """A set whose ITERATION ORDER is decided by the simulator instead of by object addresses.

    pedal keeps the feedback classes whose attributes were overridden in a plain ``set`` and restores them in
    iteration order; for classes that order is a function of their memory addresses, i.e. of the allocator's
    history.  Putting this behind a seam makes the order a seeded, replayable choice."""

    def __init__(self, seed=0):
        super().__init__()
        self._order = []
        self._seed = seed

    def add(self, item):
        if item not in self:
            self._order.append(item)
        super().add(item)

    def discard(self, item):
        if item in self:
            self._order.remove(item)
        super().discard(item)

    def remove(self, item):
        super().remove(item)
        self._order.remove(item)

    def clear(self):
        super().clear()
        self._order = []

    def __iter__(self):
        import random
        order = list(self._order)
        random.Random(self._seed * 1000003 + len(order)).shuffle(order)
        return iter(order)


def install_seeded_sets(report, seed):
    """Replace the address-ordered set of overridden feedback classes on ``report``."""
    old = getattr(report, 'overridden_feedbacks', None)
    new = SeededSet(seed)
    if old:
        for c in sorted(old, key=lambda c: (c.__module__, c.__qualname__)):
            new.add(c)
    report.overridden_feedbacks = new
